#!/usr/bin/env python3
"""Self-test of the machinery: apply property-breaking edits (that keep the 69 tests green) and equivalent edits
to a scratch copy of /repo under /tmp (VERIF_REPO), run the owning checks against it, delete the copy.

  python3 selftest/mutants.py list
  python3 selftest/mutants.py run [name ...]        (writes selftest/results.json)

Every mutant is (file, old text, new text, checks expected to report VIOLATION); equivalents expect none.
/repo itself is never modified by the self-test.
"""
import json
import os
import subprocess
import sys
import time

ROOT = os.path.dirname(os.path.dirname(os.path.abspath(__file__)))
REPO = "/tmp/corgi_selftest"      # scratch copy of /repo (deleted at the end); /repo itself is not touched

M = [
    ("gd_gradient_not_cleared", "src/optimizer/gd.rs",
     "parameter_gradients.extend(p.replace_gradient().unwrap().values());",
     "parameter_gradients.extend(p.gradient().as_ref().unwrap().values());", ["C13", "C14"]),
    ("gd_result_untracked", "src/optimizer/gd.rs", "                ))\n                .tracked();", "                ));", ["C13", "C14"]),
    ("gd_plus_instead_of_minus", "src/optimizer/gd.rs", "*x -= self.learning_rate * g;", "*x += self.learning_rate * g;", ["C13", "C14"]),
    ("gd_frozen_not_skipped_when_draining", "src/optimizer/gd.rs", "            .filter(|(_, f)| !f)\n            .for_each(|(p, _)| {",
     "            .filter(|(p, _)| p.values().len() > 0)\n            .for_each(|(p, _)| {", ["C13"]),
    ("untracked_keeps_flag", "src/array/mod.rs",
     "    pub fn untracked(self) -> Array {\n        self.keep_gradient.replace(false);\n        self.is_tracked.replace(false);",
     "    pub fn untracked(self) -> Array {\n        self.keep_gradient.replace(false);", ["C09"]),
    ("kids_stay_tracked_in_closure", "src/array/mod.rs", "self.children.iter().map(|c| c.stop_tracking()).collect();",
     "self.children.iter().map(|c| c.is_tracked.get()).collect();", ["C09"]),
    ("propagate_counts_untracked", "src/array/mod.rs", "        for child in self.children.iter() {\n            if child.is_tracked.get() {",
     "        for child in self.children.iter() {\n            if child.is_tracked.get() || child.children.is_empty() {", ["C10"]),
    ("replace_gradient_keeps_slot", "src/array/mod.rs", "        self.gradient.replace(None)\n", "        self.gradient.borrow().clone()\n", ["C10"]),
    ("default_seed_wrong_beyond_8", "src/array/mod.rs", "                        Rc::new(vec![1.0; self.values.len()]),",
     "                        Rc::new((0..self.values.len()).map(|i| if i < 8 { 1.0 } else { 0.0 }).collect()),", ["C17"]),
    ("reciprocal_derivative_sign", "src/array/arithmetic.rs", "vec![Some(&(-&c[0].reciprocal().powf(2.0)) * x)]",
     "vec![Some(&(c[0].reciprocal().powf(2.0)) * x)]", ["C02"]),
    ("sum_dims_wrong_for_k3", "src/array/arithmetic.rs", "            .chain(vec![1; dimension_count])",
     "            .chain(vec![1; if dimension_count >= 3 { 2 } else { dimension_count }])", ["C07"]),
    ("mse_divides_by_leading_dim", "src/cost.rs", "let length: usize = output.dimensions().iter().product();",
     "let length: usize = output.dimensions()[0];", ["C15"]),
    ("cross_entropy_not_divided", "src/cost.rs", "(1.0 / batch_size as Float) * &(&(-target) * &output.ln())",
     "(1.0 / (batch_size / batch_size) as Float) * &(&(-target) * &output.ln())", ["C15"]),
    ("model_leaks_previous_output", "src/model.rs", "        self.output = Some(input.clone());",
     "        std::mem::forget(self.output.take());\n        self.output = Some(input.clone());", ["C18", "C14"]),
    ("clone_does_not_copy_keep", "src/array/mod.rs", "keep_gradient: Cell::new(self.keep_gradient.get()),", "keep_gradient: Cell::new(false),", ["C01", "C09"]),
    ("no_flag_restore", "src/array/mod.rs", "                    .filter(|(_, t)| *t)\n                    .for_each(|(c, _)| {\n                        c.start_tracking();\n                    });",
     "                    .filter(|(_, t)| *t)\n                    .for_each(|(_c, _)| {});", ["C09", "C10"]),
]
E = [
    ("eq_recurse_at_le_1", "src/array/mod.rs", "                        if child_consumer_count == 1 {", "                        if child_consumer_count <= 1 {", []),
    ("eq_start_tracking_sets_keep", "src/array/mod.rs", "    pub fn start_tracking(&self) -> bool {\n        self.is_tracked.replace(true)",
     "    pub fn start_tracking(&self) -> bool {\n        self.keep_gradient.replace(true);\n        self.is_tracked.replace(true)", []),
    ("eq_store_every_reached_gradient", "src/array/mod.rs", "        if self.children.is_empty() || self.keep_gradient.get() {",
     "        if self.children.is_empty() || self.keep_gradient.get() || true {", []),
    ("eq_matmul_loop_interchange", "src/array/linalg.rs", "        for r in 0..output_rows {\n            for j in 0..output_cols {",
     "        for j in 0..output_cols {\n            for r in 0..output_rows {", []),
]
ALL_CHECKS = ["C01", "C02", "C03", "C09", "C10", "C11", "C12", "C13", "C14", "C17", "C18"]


def sh(cmd, **kw):
    return subprocess.run(cmd, shell=True, capture_output=True, text=True, **kw)


def setup_copy():
    sh("rm -rf %s %s_harness && mkdir -p %s && git -C /repo archive HEAD | tar -x -C %s" % (REPO, REPO, REPO, REPO))


def restore():
    sh("rm -rf %s/src && git -C /repo archive HEAD src | tar -x -C %s" % (REPO, REPO))


def run_one(name, path, old, new, expect, checks):
    src = open(os.path.join(REPO, path)).read()
    assert src.count(old) == 1, "mutant %s: pattern found %d times" % (name, src.count(old))
    res = {"name": name, "file": path, "expect": expect, "checks": {}}
    try:
        open(os.path.join(REPO, path), "w").write(src.replace(old, new))
        t = sh("cd %s && cargo test --offline 2>&1 | grep -E '^test result'" % REPO)
        res["suite"] = t.stdout.strip().replace("\n", " | ")
        res["suite_green"] = "69 passed; 0 failed" in t.stdout and "11 passed; 0 failed" in t.stdout
        for c in checks:
            t0 = time.time()
            p = sh("cd %s && ./check run %s --tier quick" % (ROOT, c))
            res["checks"][c] = {"exit": p.returncode, "violations": p.stdout.count("VIOLATION"),
                                "reasons": sorted(set(l.split("reason=")[1] for l in p.stderr.splitlines() if "reason=" in l))[:6],
                                "wall_s": round(time.time() - t0, 1)}
    finally:
        restore()
    return res


def main():
    if sys.argv[1] == "list":
        for m in M + E:
            print(m[0], m[1], m[4])
        return
    names = sys.argv[2:]
    out = []
    setup_copy()
    for (name, path, old, new, expect) in M + E:
        if names and name not in names:
            continue
        checks = expect if expect else ALL_CHECKS
        r = run_one(name, path, old, new, expect, checks)
        caught = [c for c, v in r["checks"].items() if v["exit"] == 1]
        toolerr = [c for c, v in r["checks"].items() if v["exit"] not in (0, 1)]
        if toolerr:
            print("   TOOL ERROR in", toolerr, flush=True)
        broken = [c for c, v in r["checks"].items() if v["exit"] not in (0, 1)]
        r["verdict"] = ("caught by " + ",".join(caught)) if caught else "not caught"
        if not expect:
            r["verdict"] = "stays green" if not caught and not broken else "FALSE ALARM in " + ",".join(caught + broken)
        print(name, "|", r["suite"], "|", r["verdict"], "|", {c: v["reasons"] for c, v in r["checks"].items() if v["reasons"]}, flush=True)
        out.append(r)
    sh("rm -rf %s %s_harness" % (REPO, REPO))
    p = os.path.join(ROOT, "selftest", "results.json")
    prev = json.load(open(p)) if os.path.exists(p) else []
    prev = [x for x in prev if x["name"] not in [o["name"] for o in out]] + out
    json.dump(prev, open(p, "w"), indent=1)


if __name__ == "__main__":
    main()
