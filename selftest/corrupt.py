#!/usr/bin/env python3
"""Demonstrates that the trace specification is BOUND to what the executor records (DESIGN.md 4.5 (i)):
a trace recorded from the unchanged crate is accepted; the same trace with ONE recorded field corrupted, one event
dropped, or two events swapped must be rejected, at the corrupted case and with a reason that names the field.

usage: selftest/corrupt.py        (writes selftest/corrupt_results.json; exit 0 iff every corruption is rejected
                                   and the uncorrupted trace is accepted)"""
import copy, json, os, random, sys
ROOT = os.path.dirname(os.path.dirname(os.path.abspath(__file__)))
sys.path.insert(0, os.path.join(ROOT, "lib"))
import pipeline as P
import fam_engine as FE
import fam_model as FM


def first(events, pred):
    for k, e in enumerate(events):
        if pred(e):
            return k
    return None


def corruptions(events):
    """yield (name, expected reasons (any of), corrupted event list)"""
    def edit(k, f):
        ev = copy.deepcopy(events)
        f(ev[k])
        return ev

    k = first(events, lambda e: e["op"] in ("mul", "add", "matmul") and not e["panic"] and e.get("new", {}).get("ok"))
    yield "result value +1", {"values"}, edit(k, lambda e: e["new"]["m"].__setitem__(0, e["new"]["m"][0] + 2))
    yield "result dims changed", {"dims", "values"}, edit(k, lambda e: e["new"].__setitem__("d", [1] + e["new"]["d"]))
    yield "operation reported as panicking", {"unexpected-panic"}, edit(k, lambda e: e.__setitem__("panic", True))
    k2 = first(events, lambda e: e["i"] > events[k]["i"] and e["case"] == events[k]["case"] and len(e["live"]) >= 2)
    yield "digest of an older live handle changed", {"immutable"}, edit(k2, lambda e: e["live"][0].__setitem__("x", e["live"][0]["x"] ^ 1))
    yield "tracked flag of a live handle flipped", {"tracked-flag"}, edit(k2, lambda e: e["live"][0].__setitem__("t", not e["live"][0]["t"]))
    yield "a live handle missing from the observation", {"live-set"}, edit(k2, lambda e: e["live"].pop(0))
    kb = first(events, lambda e: e["op"] == "backward" and not e["panic"] and any(l.get("g") and l.get("gt", {}).get("ok") for l in e["live"]))
    def gidx(e):
        return first(e["live"], lambda l: l.get("g") and l.get("gt", {}).get("ok"))
    yield "gradient value changed", {"grad-value"}, edit(kb, lambda e: e["live"][gidx(e)]["gt"]["m"].__setitem__(0, e["live"][gidx(e)]["gt"]["m"][0] + 2))
    yield "gradient reported absent", {"grad-presence"}, edit(kb, lambda e: (e["live"][gidx(e)].__setitem__("g", False)))
    yield "gradient reported tracked", {"grad-tracked"}, edit(kb, lambda e: e["live"][gidx(e)].__setitem__("gtrk", True))
    yield "gradient dims changed", {"grad-dims", "grad-value"}, edit(kb, lambda e: e["live"][gidx(e)]["gt"].__setitem__("d", [1] + e["live"][gidx(e)]["gt"]["d"]))
    ke = first(events, lambda e: e["op"] == "backward" and len(e.get("evals", [])) >= 2)
    yield "derivative invocation logged twice", {"eval-once", "eval-set"}, edit(ke, lambda e: e["evals"].append(copy.deepcopy(e["evals"][0])))
    yield "derivative invocation missing", {"eval-set", "eval-once"}, edit(ke, lambda e: e["evals"].pop(0))
    yield "derivative invocations reordered", {"eval-order"}, edit(ke, lambda e: e["evals"].reverse())
    def adj(e):
        a = e["evals"][-1]["adj"]
        a["m"][0] = a["m"][0] + 2
    yield "adjoint received by a derivative changed", {"eval-adjoint"}, edit(ke, adj)
    ku = first(events, lambda e: e["op"] == "update" and not e["panic"] and e["newp"][0].get("ok"))
    yield "updated parameter value changed", {"update-values"}, edit(ku, lambda e: e["newp"][0]["m"].__setitem__(0, e["newp"][0]["m"][0] + 2))
    km = first(events, lambda e: e["op"] == "m_backward" and not e["panic"])
    def loss(e):
        e["ret"]["m"] = e["ret"]["m"] + 2
    yield "returned loss changed", {"loss"}, edit(km, loss)
    kv = first(events, lambda e: e["op"] == "into_vec" and not e["panic"])
    yield "Vec::from reported as failing", {"into_vec-should-succeed"}, edit(kv, lambda e: e.__setitem__("panic", True))
    # structure: one event dropped, two events swapped
    ev = copy.deepcopy(events)
    del ev[k]
    yield "one operation event dropped", None, ev
    ev = copy.deepcopy(events)
    ev[k], ev[k + 1] = ev[k + 1], ev[k]
    yield "two events swapped", None, ev


def validate(events, wd, tag):
    p = os.path.join(wd, tag + ".events.ndjson")
    with open(p, "w") as f:
        for e in events:
            f.write(json.dumps(e, separators=(",", ":")) + "\n")
    return P.validate("TraceExact", p, wd, nshards=1)


def main():
    rnd = random.Random(7)
    cases = FE.suite_derived_cases()[:2] + FE.c11_cases("quick", 3)[20:24] + FM.c13_cases("quick", 3)[:2] + FM.c14_cases("quick", 3)[:3]
    wd = os.path.join(P.OUT, "selftest_corrupt")
    os.makedirs(wd, exist_ok=True)
    prog, evp = os.path.join(wd, "base.prog.ndjson"), os.path.join(wd, "base.events.ndjson")
    P.write_programs(prog, cases)
    exe = P.build_executor(False)
    P.run_executor(exe, prog, evp)
    events = [json.loads(l) for l in open(evp)]
    base = P.validate("TraceExact", evp, wd, nshards=1)
    results = {"base": {"events": len(events), "mismatches": len(base["mismatches"])}, "corruptions": []}
    ok = not base["mismatches"]
    print("base trace: %d events, %d mismatches" % (len(events), len(base["mismatches"])))
    for n, (name, expect, ev) in enumerate(corruptions(events)):
        try:
            res = validate(ev, wd, "c%02d" % n)
            why = sorted({m["why"] for m in res["mismatches"]})
        except P.ToolError:
            # a structurally impossible trace (an event refers to a handle that was never created): TLC cannot
            # evaluate the specification on it and the pipeline reports a tool error - it is not accepted either
            why = ["trace-not-consumable (tool error)"]
        rejected = bool(why) and (expect is None or bool(set(why) & expect))
        ok = ok and rejected
        results["corruptions"].append({"corruption": name, "rejected": rejected, "reasons": why,
                                       "expected_any_of": sorted(expect) if expect else "any"})
        print("%-48s %s  %s" % (name, "REJECTED" if rejected else "ACCEPTED (!)", why))
    json.dump(results, open(os.path.join(ROOT, "selftest", "corrupt_results.json"), "w"), indent=1)
    return 0 if ok else 1


if __name__ == "__main__":
    sys.exit(main())
