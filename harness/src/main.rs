// Executor: performs recorded API steps on the real corgi library and records what it observes.
// It contains NO expected values and NO comparison logic - the TLA+ trace specification judges.
//
// usage: executor <programs.ndjson> <events.ndjson> [--real]
//   exact mode (default): values cross the boundary as per-element dyadics  m * 2^-e  ("m","e" arrays)
//   real mode (--real):   values cross as hexadecimal bit patterns ("hx" array)
extern crate corgi;

use corgi::activation::Activation;
use corgi::array::*;
use corgi::cost::CostFunction;
use corgi::initializer::Initializer;
use corgi::layer::conv::Conv;
use corgi::layer::dense::Dense;
use corgi::layer::Layer;
use corgi::model::Model;
use corgi::numbers::Float;
use corgi::optimizer::gd::GradientDescent;
use corgi::optimizer::Optimizer;
use corgi::{activation, cost};

use serde_json::{json, Map, Value};
use std::cell::{Cell, RefCell};
use std::collections::BTreeMap;
use std::io::{BufRead, Write};
use std::panic::{self, AssertUnwindSafe};
use std::rc::Rc;

#[cfg(feature = "f32")]
const MANT_LIMIT: i64 = 1 << 24;
#[cfg(not(feature = "f32"))]
const MANT_LIMIT: i64 = 1 << 30;

thread_local! {
    static REAL: Cell<bool> = Cell::new(false);
    // depth of guarded regions: a panic of the code under test inside one is DATA (recorded in the event);
    // a panic outside is a bug of the executor itself and is printed
    static GUARD: Cell<u32> = Cell::new(0);
}
fn real() -> bool {
    REAL.with(|r| r.get())
}

// AbsDiffEq / RelativeEq of corgi::array::Array come from the `approx` crate, a dependency of corgi
mod approx_shim {
    use corgi::array::Array;
    use corgi::numbers::Float;
    pub fn abs_diff(a: &Array, b: &Array, eps: Float) -> bool {
        approx::AbsDiffEq::abs_diff_eq(a, b, eps)
    }
    pub fn relative(a: &Array, b: &Array, eps: Float, rel: Float) -> bool {
        approx::RelativeEq::relative_eq(a, b, eps, rel)
    }
}

// ---------- scalar / tensor encoding
fn dy_of(v: f64) -> Option<(i64, i64)> {
    if v == 0.0 {
        return Some((0, 0));
    }
    if !v.is_finite() {
        return None;
    }
    let bits = v.to_bits();
    let sign = if (bits >> 63) != 0 { -1i64 } else { 1 };
    let exp = ((bits >> 52) & 0x7ff) as i64;
    let frac = (bits & 0xfffffffffffff) as i64;
    let (mut m, mut k) = if exp == 0 { (frac, -1074i64) } else { (frac | (1 << 52), exp - 1075) };
    while m & 1 == 0 {
        m >>= 1;
        k += 1;
    }
    if m >= MANT_LIMIT || k.abs() > 1000 {
        return None;
    }
    Some((sign * m, -k))
}
fn f_of(m: i64, e: i64) -> Float {
    ((m as f64) * (2.0f64).powi(-(e as i32))) as Float
}
fn hex_of(v: Float) -> String {
    #[cfg(feature = "f32")]
    return format!("{:08x}", v.to_bits());
    #[cfg(not(feature = "f32"))]
    return format!("{:016x}", v.to_bits());
}
fn unhex(s: &str) -> Float {
    #[cfg(feature = "f32")]
    return f32::from_bits(u32::from_str_radix(s, 16).unwrap());
    #[cfg(not(feature = "f32"))]
    return f64::from_bits(u64::from_str_radix(s, 16).unwrap());
}
fn scalar_in(v: &Value) -> Float {
    if let Some(h) = v.get("hx") {
        unhex(h.as_str().unwrap())
    } else {
        f_of(v["m"].as_i64().unwrap(), v["e"].as_i64().unwrap())
    }
}
fn scalar_out(v: Float) -> Value {
    if real() {
        json!({ "hx": hex_of(v) })
    } else {
        match dy_of(v as f64) {
            Some((m, e)) => json!({"m": m, "e": e, "ok": true}),
            None => json!({"m": 0, "e": 0, "ok": false, "hx": hex_of(v)}),
        }
    }
}
fn dims_in(v: &Value) -> Vec<usize> {
    v.as_array().unwrap().iter().map(|x| x.as_u64().unwrap() as usize).collect()
}
fn values_in(v: &Value) -> Vec<Float> {
    if let Some(h) = v.get("hx") {
        h.as_array().unwrap().iter().map(|x| unhex(x.as_str().unwrap())).collect()
    } else {
        let m = v["m"].as_array().unwrap();
        let e = v["e"].as_array().unwrap();
        m.iter().zip(e).map(|(m, e)| f_of(m.as_i64().unwrap(), e.as_i64().unwrap())).collect()
    }
}
fn tensor_in(v: &Value) -> Array {
    Array::from((dims_in(&v["d"]), values_in(v)))
}
fn digest_dv(d: &[usize], vals: &[Float]) -> i64 {
    let mut h: u64 = 1469598103934665603;
    for x in d {
        h ^= *x as u64;
        h = h.wrapping_mul(1099511628211);
    }
    for v in vals {
        h ^= v.to_bits() as u64;
        h = h.wrapping_mul(1099511628211);
    }
    (h % 2147483647) as i64
}
fn digest(a: &Array) -> i64 {
    digest_dv(a.dimensions(), a.values())
}
fn tensor_out_dv(d: &[usize], vals: &[Float]) -> Value {
    if real() {
        json!({"d": d, "hx": vals.iter().map(|v| hex_of(*v)).collect::<Vec<_>>(), "x": digest_dv(d, vals)})
    } else {
        let mut ms = Vec::with_capacity(vals.len());
        let mut es = Vec::with_capacity(vals.len());
        let mut ok = true;
        for v in vals {
            match dy_of(*v as f64) {
                Some((m, e)) => {
                    ms.push(m);
                    es.push(e);
                }
                None => {
                    ok = false;
                    break;
                }
            }
        }
        if ok {
            json!({"d": d, "m": ms, "e": es, "ok": true, "x": digest_dv(d, vals)})
        } else {
            json!({"d": d, "m": [], "e": [], "ok": false, "x": digest_dv(d, vals),
                   "hx": vals.iter().map(|v| hex_of(*v)).collect::<Vec<_>>()})
        }
    }
}
fn tensor_out(a: &Array) -> Value {
    tensor_out_dv(a.dimensions(), a.values())
}

// ---------- user operations supplied through Array::op (plain Vec arithmetic, no Array operations)
struct EvalLog {
    entries: RefCell<Vec<Value>>,
    budget: Cell<i64>,
}
fn zip2(a: &Array, b: &Array, f: impl Fn(Float, Float) -> Float) -> Array {
    assert!(a.dimensions() == b.dimensions(), "custom op: dimensions differ");
    Array::from((
        a.dimensions().to_vec(),
        a.values().iter().zip(b.values()).map(|(x, y)| f(*x, *y)).collect::<Vec<Float>>(),
    ))
}
fn custom_op(name: &str, args: &[&Array], with_backward: bool, uid: i64, log: &Rc<EvalLog>) -> Array {
    let fwd: ForwardOp = match name {
        "cadd" => Rc::new(|x: &[&Array]| zip2(x[0], x[1], |p, q| p + q)),
        "cmul" => Rc::new(|x: &[&Array]| zip2(x[0], x[1], |p, q| p * q)),
        "csq" => Rc::new(|x: &[&Array]| zip2(x[0], x[0], |p, q| p * q)),
        "cfma" => Rc::new(|x: &[&Array]| zip2(&zip2(x[0], x[1], |p, q| p * q), x[2], |p, q| p + q)),
        _ => panic!("unknown custom op"),
    };
    let bw: Option<BackwardOp> = if !with_backward {
        None
    } else {
        let name = name.to_string();
        let log = Rc::clone(log);
        Some(Rc::new(move |c: &[Array], t: &[bool], x: &Array| {
            let left = log.budget.get() - 1;
            log.budget.set(left);
            if left < 0 {
                panic!("verif: derivative evaluation budget exhausted");
            }
            // what the closure is given: the adjoint, the flags slice, and whether its operands are tracked right now
            let ct: Vec<bool> = c
                .iter()
                .map(|k| {
                    let was = k.stop_tracking();
                    if was {
                        k.start_tracking();
                    }
                    was
                })
                .collect();
            log.entries.borrow_mut().push(json!({"u": uid, "adj": tensor_out(x), "t": t, "ct": ct}));
            let pick = |i: usize, v: Array| if t[i] { Some(v) } else { None };
            match name.as_str() {
                "cadd" => vec![pick(0, zip2(x, x, |p, _| p)), pick(1, zip2(x, x, |p, _| p))],
                "cmul" => vec![pick(0, zip2(x, &c[1], |p, q| p * q)), pick(1, zip2(x, &c[0], |p, q| p * q))],
                "csq" => vec![pick(0, zip2(x, &c[0], |p, q| 2.0 * p * q))],
                "cfma" => vec![
                    pick(0, zip2(x, &c[1], |p, q| p * q)),
                    pick(1, zip2(x, &c[0], |p, q| p * q)),
                    pick(2, zip2(x, x, |p, _| p)),
                ],
                _ => unreachable!(),
            }
        }))
    };
    Array::op(args, fwd, bw)
}

// ---------- layers observed through a delegating wrapper
struct Wrap {
    inner: Rc<RefCell<Box<dyn Layer>>>,
}
impl Layer for Wrap {
    fn forward(&self, input: Array) -> Array {
        self.inner.borrow().forward(input)
    }
    fn parameters(&mut self) -> Vec<&mut Array> {
        // the executor never holds a RefCell borrow while the model runs (single thread)
        unsafe { (&mut *self.inner.as_ptr()).parameters() }
    }
}
struct LayerSlot {
    inner: Rc<RefCell<Box<dyn Layer>>>,
    ph: Vec<i64>, // pseudo handle ids of the parameters, in parameters() order
}

fn make_activation(name: &str) -> Option<Activation> {
    match name {
        "none" => None,
        "relu" => Some(activation::relu()),
        "sigmoid" => Some(activation::sigmoid()),
        "softmax" => Some(activation::softmax()),
        _ => panic!("unknown activation"),
    }
}
fn make_initializer(vals: Vec<Float>) -> Initializer {
    let k = Cell::new(0usize);
    Box::new(move |_| {
        let i = k.get();
        k.set(i + 1);
        vals[i % vals.len()]
    })
}

struct State {
    hs: BTreeMap<i64, Array>,
    layers: BTreeMap<i64, LayerSlot>,
    model: Option<Model<'static>>,
    last_cmp: bool,
    log: Rc<EvalLog>,
    optimizers: Vec<(u64, GradientDescent)>,
    costs: Vec<(String, CostFunction)>,
    quiet: bool,
}

impl State {
    fn param_clone(&self, h: i64) -> Option<Array> {
        for slot in self.layers.values() {
            if let Some(k) = slot.ph.iter().position(|p| *p == h) {
                let mut b = slot.inner.borrow_mut();
                let ps = b.parameters();
                return Some(ps[k].clone());
            }
        }
        None
    }
    fn has(&self, h: i64) -> bool {
        self.hs.contains_key(&h) || self.param_clone(h).is_some()
    }
    // operand access: user handles by reference; parameter pseudo-handles through a temporary clone
    fn with_args<R>(&self, args: &[i64], f: impl FnOnce(&[&Array]) -> R) -> R {
        let temps: Vec<Option<Array>> =
            args.iter().map(|a| if self.hs.contains_key(a) { None } else { self.param_clone(*a) }).collect();
        let refs: Vec<&Array> =
            args.iter().zip(&temps).map(|(a, t)| t.as_ref().unwrap_or_else(|| &self.hs[a])).collect();
        f(&refs)
    }
}

fn observe_val(a: &Array, h: i64, with_grads: bool) -> Value {
    let mut o = observe(a, h, with_grads);
    o["val"] = tensor_out(a);
    o
}

fn observe(a: &Array, h: i64, with_grads: bool) -> Value {
    let t = a.stop_tracking();
    if t {
        a.start_tracking();
    }
    let g = a.gradient();
    let mut o = json!({"h": h, "x": digest(a), "t": t, "g": g.is_some()});
    // the consumer counter as printed by the public Debug implementation ("consumers: Cell { value: N }");
    // absent when the format does not have it (then nothing is judged from it)
    let dbg = format!("{:?}", a);
    if let Some(p) = dbg.find("consumers: Cell { value: ") {
        let rest = &dbg[p + "consumers: Cell { value: ".len()..];
        let digits: String = rest.chars().take_while(|c| c.is_ascii_digit()).collect();
        if let Ok(n) = digits.parse::<i64>() {
            o["cc"] = json!(n.min(1_000_000));
        }
    }
    if with_grads {
        if let Some(gr) = &*g {
            o["gt"] = tensor_out(gr);
            let gt = gr.stop_tracking();
            if gt {
                gr.start_tracking();
            }
            o["gtrk"] = json!(gt);
        }
    }
    o
}

fn main() {
    panic::set_hook(Box::new(|info| {
        if GUARD.with(|g| g.get()) == 0 {
            eprintln!("executor panic outside a guarded call: {}", info);
        }
    }));
    let argv: Vec<String> = std::env::args().collect();
    if argv.iter().any(|a| a == "--real") {
        REAL.with(|r| r.set(true));
    }
    let f = std::io::BufReader::new(std::fs::File::open(&argv[1]).expect("open programs"));
    let mut out = std::io::BufWriter::new(std::fs::File::create(&argv[2]).expect("create events"));
    let mut st = State {
        hs: BTreeMap::new(),
        layers: BTreeMap::new(),
        model: None,
        last_cmp: false,
        log: Rc::new(EvalLog { entries: RefCell::new(vec![]), budget: Cell::new(0) }),
        optimizers: vec![],
        costs: vec![],
        quiet: false,
    };
    for line in f.lines() {
        let line = line.unwrap();
        if line.trim().is_empty() {
            continue;
        }
        let step: Value = serde_json::from_str(&line).unwrap();
        let ev = run_step(&mut st, &step);
        writeln!(out, "{}", ev).unwrap();
    }
    out.flush().unwrap();
}

fn run_step(st: &mut State, step: &Value) -> Value {
    let op = step["op"].as_str().unwrap().to_string();
    let args: Vec<i64> = step
        .get("args")
        .and_then(|a| a.as_array())
        .map(|a| a.iter().map(|x| x.as_i64().unwrap()).collect())
        .unwrap_or_default();
    let res = step.get("res").and_then(|r| r.as_i64());
    let uid = step.get("i").and_then(|r| r.as_i64()).unwrap_or(0);
    let mut ev: Map<String, Value> = step.as_object().unwrap().clone();

    // conditional steps (data-dependent control flow): executed only when the last comparison matches
    let mut execute = true;
    if let Some(w) = step.get("when").and_then(|w| w.as_bool()) {
        if w != st.last_cmp {
            execute = false;
        }
    }
    if op != "reset" && args.iter().any(|a| !st.has(*a)) {
        ev.insert("invalid".into(), json!(true));
        ev.insert("panic".into(), json!(false));
        return Value::Object(ev);
    }
    ev.insert("skipped".into(), json!(!execute));

    let mut panicked = false;
    let mut with_grads = false;
    let mut newh: Option<Array> = None;

    macro_rules! guarded {
        ($body:expr) => {{
            GUARD.with(|g| g.set(g.get() + 1));
            let r = panic::catch_unwind(AssertUnwindSafe(|| $body));
            GUARD.with(|g| g.set(g.get() - 1));
            match r {
                Ok(v) => Some(v),
                Err(_) => {
                    panicked = true;
                    None
                }
            }
        }};
    }

    let opx = if execute { op.as_str() } else { "nop" };
    match opx {
        "nop" => {}
        "reset" => {
            st.model = None;
            st.hs.clear();
            st.layers.clear();
            st.optimizers.clear();
            st.costs.clear();
            st.last_cmp = false;
            // a quiet case: the harness looks at nothing between the steps (no gradient() / values() calls of its own)
            // except on steps marked "obs" - what the program does must not depend on being watched
            st.quiet = step.get("quiet").and_then(|q| q.as_bool()).unwrap_or(false);
        }
        // ---- construction
        "leaf" => {
            let ctor = step.get("ctor").and_then(|c| c.as_str()).unwrap_or("dv");
            let trk = step.get("trk").and_then(|t| t.as_bool()).unwrap_or(false);
            let r = guarded!({
                let a = match ctor {
                    "dv" => Array::from((dims_in(&step["d"]), values_in(step))),
                    "flat" => Array::from(values_in(step)),
                    "zeros" => Array::from(dims_in(&step["d"])),
                    _ => panic!("unknown ctor"),
                };
                if trk {
                    a.tracked()
                } else {
                    a
                }
            });
            newh = r;
        }
        "nested" => {
            let mv = step.get("mv").and_then(|t| t.as_bool()).unwrap_or(false);
            let items: Vec<Array> = if mv {
                args.iter().map(|a| st.hs.remove(a).unwrap()).collect()
            } else {
                st.with_args(&args, |xs| xs.iter().map(|x| (*x).clone()).collect())
            };
            newh = guarded!(Array::from(items));
        }
        "index" => {
            let r = st.with_args(&args, |xs| {
                guarded!(if let Some(k) = step.get("flat") {
                    xs[0][k.as_u64().unwrap() as usize]
                } else {
                    xs[0][dims_in(&step["idx"])]
                })
            });
            if let Some(v) = r {
                ev.insert("ret".into(), scalar_out(v));
            }
        }
        "eq" => {
            let r = st.with_args(&args, |xs| guarded!(xs[0] == xs[1]));
            if let Some(v) = r {
                ev.insert("ret".into(), json!(v));
            }
        }
        "abs_diff_eq" | "relative_eq" => {
            use approx_shim::{abs_diff, relative};
            let eps = scalar_in(&step["eps"]);
            let r = st.with_args(&args, |xs| {
                guarded!(if op == "abs_diff_eq" { abs_diff(xs[0], xs[1], eps) } else { relative(xs[0], xs[1], eps, scalar_in(&step["rel"])) })
            });
            if let Some(v) = r {
                ev.insert("ret".into(), json!(v));
            }
        }
        "cmp" => {
            // data-dependent control flow: element k of the array greater than a threshold
            let k = step["k"].as_u64().unwrap() as usize;
            let thr = scalar_in(&step["thr"]);
            let v = st.with_args(&args, |xs| xs[0][k] > thr);
            st.last_cmp = v;
            ev.insert("ret".into(), json!(v));
        }
        // ---- differentiable operations
        "add" | "sub" | "mul" | "div" | "axpy" | "neg" | "scale" | "scale_l" | "powf" | "recip" | "ln" | "exp"
        | "sum" | "reshape" | "matmul" | "conv" | "relu" | "sigmoid" | "softmax" | "cadd" | "cmul" | "csq"
        | "cfma" | "clib" => {
            let log = Rc::clone(&st.log);
            newh = st.with_args(&args, |xs| {
                guarded!(match op.as_str() {
                    // a user operation WITHOUT a derivative of its own whose forward closure is written with the
                    // library's differentiable operations (x0 * x0 + x1): it relies on the recorded graph
                    "clib" => {
                        let f: ForwardOp = Rc::new(|x: &[&Array]| &(x[0] * x[0]) + x[1]);
                        Array::op(&[xs[0], xs[1]], f, None)
                    }
                    "add" => xs[0] + xs[1],
                    "sub" => xs[0] - xs[1],
                    "mul" => xs[0] * xs[1],
                    "div" => xs[0] / xs[1],
                    "axpy" => Array::axpy(scalar_in(&step["alpha"]), xs[0], xs[1]),
                    "neg" => -xs[0],
                    "scale" => xs[0] * scalar_in(&step["c"]),
                    "scale_l" => scalar_in(&step["c"]) * xs[0],
                    "powf" => {
                        let p = &step["p"];
                        let e = if let Some(n) = p.get("n") { n.as_i64().unwrap() as Float } else { scalar_in(p) };
                        xs[0].powf(e)
                    }
                    "recip" => xs[0].reciprocal(),
                    "ln" => xs[0].ln(),
                    "exp" => xs[0].exp(),
                    "sum" => xs[0].sum(step["k"].as_u64().unwrap() as usize),
                    "reshape" => xs[0].reshape(dims_in(&step["d"])),
                    "matmul" => Array::matmul(
                        (xs[0], step["ta"].as_bool().unwrap()),
                        (xs[1], step["tb"].as_bool().unwrap()),
                        if xs.len() > 2 { Some(xs[2]) } else { None },
                    ),
                    "conv" => xs[0].conv(
                        xs[1],
                        (step["sr"].as_u64().unwrap() as usize, step["sc"].as_u64().unwrap() as usize),
                    ),
                    "relu" => xs[0].relu(),
                    "sigmoid" => xs[0].sigmoid(),
                    "softmax" => xs[0].softmax(),
                    _ => custom_op(&op, xs, step["bw"].as_bool().unwrap(), uid, &log),
                })
            });
        }
        "sum_all" => {
            let r = st.with_args(&args, |xs| guarded!(xs[0].sum_all()));
            if let Some(v) = r {
                ev.insert("ret".into(), scalar_out(v));
            }
        }
        "cost" => {
            let kind = step["kind"].as_str().unwrap();
            // one cost closure per kind and case, reused by later cost steps (as a training loop reuses its closure)
            if !st.costs.iter().any(|(k, _)| k == kind) {
                st.costs.push((kind.to_string(), if kind == "mse" { cost::mse() } else { cost::cross_entropy() }));
            }
            let cf: &CostFunction = &st.costs.iter().find(|(k, _)| k == kind).unwrap().1;
            newh = st.with_args(&args, |xs| guarded!(cf(xs[0], xs[1])));
        }
        // ---- handles
        "clone" => {
            newh = Some(st.with_args(&args, |xs| xs[0].clone()));
        }
        "drop" => {
            st.hs.remove(&args[0]);
        }
        "start" | "stop" if !st.hs.contains_key(&args[0]) => {
            // a layer parameter (pseudo handle): the flag of the array owned by the layer itself
            for slot in st.layers.values() {
                if let Some(k) = slot.ph.iter().position(|p| *p == args[0]) {
                    let mut b = slot.inner.borrow_mut();
                    let ps = b.parameters();
                    let r = if op == "start" { ps[k].start_tracking() } else { ps[k].stop_tracking() };
                    ev.insert("ret".into(), json!(r));
                }
            }
        }
        "start" => {
            ev.insert("ret".into(), json!(st.hs[&args[0]].start_tracking()));
        }
        "stop" => {
            ev.insert("ret".into(), json!(st.hs[&args[0]].stop_tracking()));
        }
        "tracked" => {
            let a = st.hs.remove(&args[0]).unwrap();
            st.hs.insert(args[0], a.tracked());
        }
        "untracked" => {
            let a = st.hs.remove(&args[0]).unwrap();
            st.hs.insert(args[0], a.untracked());
        }
        // ---- passes and gradient slots
        "backward" => {
            with_grads = true;
            // the seed: a fresh array, or (seedh) a clone of a live handle - the caller keeps its own handle on it
            // or (seedv) a reshaped VIEW of a live handle: the seed shares that handle's value buffer
            let seed = match (step.get("seedh").and_then(|h| h.as_i64()), step.get("seedv").and_then(|h| h.as_i64())) {
                (Some(h), _) => Some(st.with_args(&[h], |xs| xs[0].clone())),
                (None, Some(h)) => {
                    let d = dims_in(&step["seedd"]);
                    Some(st.with_args(&[h], |xs| xs[0].reshape(d)))
                }
                _ => step.get("seed").filter(|s| s.is_object() && s.get("d").is_some()).map(tensor_in),
            };
            st.log.entries.borrow_mut().clear();
            st.log.budget.set(step.get("budget").and_then(|b| b.as_i64()).unwrap_or(100000));
            let log = Rc::clone(&st.log);
            // optionally a `Ref` on some handle's gradient slot stays alive while the pass runs (a caller that is still
            // looking at a gradient): the pass may panic on the borrow, but must not silently lose anything
            let held = step.get("hold").and_then(|h| h.as_i64()).and_then(|h| st.hs.get(&h));
            let guard = held.map(|a| a.gradient());
            st.with_args(&args, |xs| {
                guarded!(xs[0].backward(seed));
            });
            drop(guard);
            ev.insert("evals".into(), Value::Array(log.entries.borrow_mut().drain(..).collect()));
            ev.insert("budget_left".into(), json!(log.budget.get().max(-1)));
        }
        "grad" => {
            // fetch a handle on the stored gradient array (a clone of it), if any
            with_grads = true;
            let g: Option<Array> = st.with_args(&args, |xs| xs[0].gradient().as_ref().cloned());
            ev.insert("some".into(), json!(g.is_some()));
            newh = g;
        }
        "clear" => {
            with_grads = true;
            let how = step["how"].as_str().unwrap();
            let taken: Option<Array> = st.with_args(&args, |xs| {
                if how == "replace" {
                    xs[0].replace_gradient()
                } else {
                    *xs[0].gradient_mut() = None;
                    None
                }
            });
            if how == "replace" {
                // what replace_gradient() handed out
                ev.insert("taken".into(), match &taken { Some(g) => tensor_out(g), None => json!({"none": true}) });
            }
        }
        "setgrad" => {
            with_grads = true;
            let g = tensor_in(&step["g"]);
            st.with_args(&args, |xs| {
                *xs[0].gradient_mut() = Some(g);
            });
        }
        "into_vec" => {
            let a = st.hs.remove(&args[0]).unwrap();
            guarded!({
                let v: Vec<Float> = a.into();
                v
            });
        }
        "update" => {
            with_grads = true;
            let lr = scalar_in(&step["lr"]);
            let mut taken: Vec<(i64, Array)> = args.iter().map(|a| (*a, st.hs.remove(a).unwrap())).collect();
            // one optimizer object per learning rate and case, reused by later updates (as a training loop does)
            let key = lr.to_bits() as u64;
            if !st.optimizers.iter().any(|(k, _)| *k == key) {
                st.optimizers.push((key, GradientDescent::new(lr)));
            }
            let gd = &st.optimizers.iter().find(|(k, _)| *k == key).unwrap().1;
            guarded!({
                gd.update(taken.iter_mut().map(|(_, a)| a).collect());
            });
            ev.insert("newp".into(), Value::Array(taken.iter().map(|(_, a)| tensor_out(a)).collect()));
            for (h, a) in taken {
                st.hs.insert(h, a);
            }
        }
        // ---- layers and models
        "dense_new" | "conv_new" => {
            let init = make_initializer(values_in(&step["init"]));
            let act = make_activation(step["act"].as_str().unwrap());
            let r: Option<Box<dyn Layer>> = guarded!({
                if op == "dense_new" {
                    let act_ref: Option<&'static Activation> = act.map(|a| &*Box::leak(Box::new(a)));
                    Box::new(Dense::new(
                        step["in"].as_u64().unwrap() as usize,
                        step["out"].as_u64().unwrap() as usize,
                        &init,
                        act_ref,
                    )) as Box<dyn Layer>
                } else {
                    let fd = dims_in(&step["fd"]);
                    Box::new(Conv::new(
                        (fd[0], fd[1], fd[2], fd[3]),
                        (step["sr"].as_u64().unwrap() as usize, step["sc"].as_u64().unwrap() as usize),
                        &init,
                        act,
                    )) as Box<dyn Layer>
                }
            });
            if let Some(l) = r {
                let ph: Vec<i64> = step["ph"].as_array().unwrap().iter().map(|x| x.as_i64().unwrap()).collect();
                let inner = Rc::new(RefCell::new(l));
                let ps: Vec<Value> = inner.borrow_mut().parameters().iter().map(|p| tensor_out(p)).collect();
                ev.insert("params".into(), Value::Array(ps));
                st.layers.insert(step["layer"].as_i64().unwrap(), LayerSlot { inner, ph });
            }
        }
        "layer_forward" => {
            let l = Rc::clone(&st.layers[&step["layer"].as_i64().unwrap()].inner);
            let x = st.with_args(&args, |xs| xs[0].clone());
            newh = guarded!(l.borrow().forward(x));
        }
        "model_new" => {
            let ls: Vec<i64> = step["layers"].as_array().unwrap().iter().map(|x| x.as_i64().unwrap()).collect();
            let mut refs: Vec<&'static mut dyn Layer> = vec![];
            for l in ls {
                let w: &'static mut Wrap = Box::leak(Box::new(Wrap { inner: Rc::clone(&st.layers[&l].inner) }));
                refs.push(w);
            }
            let opt: &'static dyn Optimizer = Box::leak(Box::new(GradientDescent::new(scalar_in(&step["lr"]))));
            let cf: &'static CostFunction = Box::leak(Box::new(if step["cost"].as_str().unwrap() == "mse" {
                cost::mse()
            } else {
                cost::cross_entropy()
            }));
            st.model = Some(Model::new(refs, opt, cf));
        }
        "model_drop" => {
            st.model = None;
        }
        "m_forward" => {
            let x = st.with_args(&args, |xs| xs[0].clone());
            let m = st.model.as_mut().unwrap();
            newh = guarded!(m.forward(x));
        }
        "m_backward" => {
            with_grads = true;
            let y = st.with_args(&args, |xs| xs[0].clone());
            let m = st.model.as_mut().unwrap();
            if let Some(v) = guarded!(m.backward(y)) {
                ev.insert("ret".into(), scalar_out(v));
            }
        }
        "m_update" => {
            with_grads = true;
            let m = st.model.as_mut().unwrap();
            guarded!(m.update());
        }
        _ => panic!("executor: unknown op {}", op),
    }

    let step_panicked = panicked;
    ev.insert("panic".into(), json!(step_panicked));
    if let Some(a) = newh {
        ev.insert("new".into(), tensor_out(&a));
        st.hs.insert(res.expect("res handle"), a);
    }
    // observation of every live handle (user handles and layer parameters); the accessors used for it belong to
    // the code under test, so a panic in them is recorded, not fatal
    let mut live = vec![];
    let mut obs_panic = false;
    if st.quiet && !step.get("obs").and_then(|o| o.as_bool()).unwrap_or(false) {
        ev.insert("noobs".into(), json!(true));
        ev.insert("live".into(), Value::Array(live));
        return Value::Object(ev);
    }
    for (h, a) in st.hs.iter() {
        match guarded!(observe(a, *h, with_grads)) {
            Some(o) => live.push(o),
            None => obs_panic = true,
        }
    }
    for slot in st.layers.values() {
        let mut b = slot.inner.borrow_mut();
        for (p, h) in b.parameters().iter().zip(&slot.ph) {
            match guarded!(if op == "m_update" { observe_val(p, *h, with_grads) } else { observe(p, *h, with_grads) }) {
                Some(o) => live.push(o),
                None => obs_panic = true,
            }
        }
    }
    live.sort_by_key(|o| o["h"].as_i64().unwrap());
    ev.insert("live".into(), Value::Array(live));
    if obs_panic {
        ev.insert("obs_panic".into(), json!(true));
    }
    Value::Object(ev)
}
