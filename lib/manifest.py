#!/usr/bin/env python3
"""Regenerates /verif/MANIFEST.json from the registry (so that it is always valid and current)."""
import json, os, sys
ROOT = os.path.dirname(os.path.dirname(os.path.abspath(__file__)))
sys.path.insert(0, os.path.join(ROOT, "lib"))
import registry as R

ALL = ["C%02d" % i for i in range(1, 20)]
checks = []
for pid in ALL:
    if pid not in R.PROPERTIES:
        continue
    p = R.PROPERTIES[pid]
    checks.append({
        "property_id": pid,
        "quick_cmd": "./check run %s --tier quick" % pid,
        "thorough_cmd": "./check run %s --tier thorough" % pid,
        "evidence_file": "/verif/evidence/%s.json" % pid,
        "replay_cmd_template": "./check replay {path}",
        "engine": "tla-trace-validation",
        "level_claimed": {"category": "model_checking", "text": p["level_text"], "design_ref": p.get("design_ref", "DESIGN.md section 5")},
        "level_note": p["level_note"],
        "technique": p["technique"],
    })
na = [{"property_id": pid, "reason": R.NOT_APPLICABLE.get(pid, "check not built yet in this session (work in progress; see DESIGN.md section 10)")}
      for pid in ALL if pid not in R.PROPERTIES]
m = {
    "version": 1,
    "setup_cmd": "./check setup",
    "hooks": {
        "guard": "corgi_verif",
        "enable": "the harness builds /repo as a path dependency with RUSTFLAGS --cfg corgi_verif (harness/.cargo/config.toml); no hook is currently needed: every verdict uses the public API only",
        "baseline_off_cmd": "cd /repo && cargo test --offline --no-fail-fast",
        "source_commits": [],
        "add_only": True,
    },
    "engines": [
        {"name": "tla-trace-validation", "path": "/verif/spec", "serves_properties": [c["property_id"] for c in checks],
         "kind_free_text": "explicit TLA+ specification (TensorCore/AutodiffAbs/AutodiffImpl/ModelAbs) model-checked with TLC; conformance by replaying spec-enumerated and random programs on the real crate (Rust executor) and validating the recorded events with the TLC trace specification TraceSpec"},
    ],
    "checks": checks,
    "not_applicable": na,
    "notes": "All verdicts come from TLC evaluating the TLA+ specification on events recorded from the real code. See DESIGN.md.",
}
json.dump(m, open(os.path.join(ROOT, "MANIFEST.json"), "w"), indent=1)
print("MANIFEST.json: %d checks, %d not applicable" % (len(checks), len(na)))
