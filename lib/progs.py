"""Helpers to write programs (sequences of API steps) for the executor."""
from fractions import Fraction
import itertools


def dy(x):
    """canonical dyadic (m, e) with value m * 2^-e of an int / Fraction with power-of-two denominator"""
    x = Fraction(x)
    if x == 0:
        return (0, 0)
    num, den = x.numerator, x.denominator
    e = den.bit_length() - 1
    assert den == 1 << e, "not a dyadic rational: %s" % x
    while num % 2 == 0:
        num //= 2
        e -= 1
    return (num, e)


def sc(x):
    m, e = dy(x)
    return {"m": m, "e": e}


def prod(d):
    p = 1
    for x in d:
        p *= x
    return p


def tensor(d, vals):
    pairs = [dy(v) for v in vals]
    return {"d": list(d), "m": [p[0] for p in pairs], "e": [p[1] for p in pairs]}


def leaf(res, d, vals, trk=False, ctor="dv"):
    s = {"op": "leaf", "res": res, "trk": trk, "ctor": ctor}
    s.update(tensor(d, vals))
    return s


def op(name, args, res, **par):
    s = {"op": name, "args": list(args), "res": res}
    s.update(par)
    return s


def backward(h, seed=None, **kw):
    s = {"op": "backward", "args": [h]}
    if seed is not None:
        s["seed"] = seed
    s.update(kw)
    return s


RESET = {"op": "reset"}


def shapes(max_rank, max_size, min_rank=1):
    out = []
    for r in range(min_rank, max_rank + 1):
        out += [list(t) for t in itertools.product(range(1, max_size + 1), repeat=r)]
    return out


def bdims(a, b):
    r = max(len(a), len(b))
    pa = [1] * (r - len(a)) + list(a)
    pb = [1] * (r - len(b)) + list(b)
    out = []
    for x, y in zip(pa, pb):
        if x != y and x != 1 and y != 1:
            return None
        out.append(max(x, y))
    return out


PRIMES = [2, 3, 5, 7, 11, 13, 17, 19, 23, 29, 31, 37, 41, 43, 47, 53, 59, 61, 67, 71, 73, 79, 83, 89, 97,
          101, 103, 107, 109, 113, 127, 131, 137, 139, 149, 151, 157, 163, 167, 173, 179, 181, 191, 193, 197,
          199, 211, 223, 227, 229, 233, 239, 241, 251, 257, 263, 269, 271, 277, 281, 283, 293, 307, 311, 313,
          317, 331, 337, 347, 349, 353, 359, 367, 373, 379, 383, 389, 397, 401, 409, 419, 421, 431, 433, 439]
