"""Real-domain scenario families: transcendental operations, judged through spec-generated terms."""
import random
import struct
from realdom import unhex

from progs import *
import fam_model as FM


def hexf(x, f32=False):
    if f32:
        return "%08x" % struct.unpack("<I", struct.pack("<f", x))[0]
    return "%016x" % struct.unpack("<Q", struct.pack("<d", x))[0]


def rt(d, vals, f32=False):
    return {"d": list(d), "hx": [hexf(v, f32) for v in vals]}


def rleaf(res, d, vals, trk=False, f32=False):
    s = {"op": "leaf", "res": res, "trk": trk, "ctor": "dv"}
    s.update(rt(d, vals, f32))
    return s


def rsc(x, f32=False):
    return {"hx": hexf(x, f32)}


def draw(rnd, n, kind):
    if kind == "pos":
        return [rnd.uniform(0.3, 3.0) for _ in range(n)]
    if kind == "nz":
        return [rnd.uniform(0.3, 3.0) * rnd.choice([1, -1]) for _ in range(n)]
    return [rnd.uniform(-2.0, 2.0) for _ in range(n)]


def real_op_cases(tier, seed, f32=False):
    rnd = random.Random(seed)
    cases = []
    reps = 6 if tier == "thorough" else 2
    shp = shapes(3, 3) + [[4], [2, 4], [3, 1, 4]]
    un = [("ln", "pos", {}), ("exp", "any", {}), ("sigmoid", "any", {}), ("softmax", "any", {}), ("recip", "nz", {}),
          ("relu", "nz", {}), ("neg", "any", {}), ("scale", "any", {"c": rsc(0.3, f32)}),
          ("powf", "pos", {"p": rsc(2.5, f32)}), ("powf", "pos", {"p": rsc(0.5, f32)}), ("powf", "pos", {"p": rsc(-1.5, f32)}),
          ("powf", "nz", {"p": {"n": 3}}), ("powf", "nz", {"p": {"n": 2}}), ("powf", "nz", {"p": {"n": -2}})]
    for d in (shp if tier == "thorough" else rnd.sample(shp, 14)):
        n = prod(d)
        for name, kind, par in un:
            for _ in range(reps):
                steps = [RESET, rleaf(1, d, draw(rnd, n, kind), trk=True, f32=f32), op(name, [1], 10, **par),
                         {"op": "backward", "args": [10], "seed": rt(d, draw(rnd, n, "any"), f32)}]
                cases.append(steps)
    # tails and extremes: saturating sigmoids, large / tiny exponentials and logarithms, bases near zero
    tails = [("sigmoid", [-40.0, -30.0, -22.0, -18.5, -17.5, -12.0, 12.0, 17.5, 18.5, 25.0, 36.0, 0.0], {}),
             ("sigmoid", [89.0, 95.0, 120.0, 300.0, -80.0, 60.0, -60.0, 45.0] if f32 else [710.0, 720.0, 800.0, 1000.0, -700.0, 300.0, -300.0, 95.0], {}),
             ("exp", [-60.0, -30.0, -10.0, 10.0, 30.0, 60.0, 0.0, 1e-9], {}),
             ("ln", [1e-12, 1e-6, 1e-3, 0.5, 1.0, 1e3, 1e9, 7e-4], {}),
             ("softmax", [-30.0, 0.0, 25.0, 1.0, -1.0, 18.0, -18.0, 3.0], {}),
             ("recip", [-1e-6, 1e-6, -1e5, 1e5, -0.5, 3.0, -7.0, 1e-3], {}),
             ("powf", [1e-120, 1e-30, 1e-3, 0.5, 2.0, 1e3, 1e10, 4.0], {"p": {"n": 3}}),
             ("powf", [1e-12, 1e-3, 0.25, 1.0, 9.0, 1e4, 1e8, 2.0], {"p": rsc(0.5, f32)}),
             ("powf", [1e-9, 2.5e-9, 1e-3, 7.0, 1e4, 1e7, 1e10, 3e9], {"p": rsc(2.5, f32)}),
             ("powf", [2.5e-9, 1e-6, 0.3, 5.0, 1e3, 1e6, 7e9, 1e10], {"p": rsc(1.5, f32)}),
             ("powf", [1e-6, 1e-2, 0.3, 1.0, 3.0, 50.0, 1e3, 7.0], {"p": rsc(-1.5, f32)})]
    if f32:
        # keep every intermediate inside the normal range of f32
        tails = [(n_, [max(min(v, 1e10 if n_ == 'powf' and 'hx' in par.get('p', {}) else 3e4), -3e4) if abs(v) > 1e-9 or v == 0 else (1e-9 if v > 0 else -1e-9) for v in vs], par)
                 for (n_, vs, par) in tails]
    for name, vals, par in tails:
        for d in ([8], [2, 4], [4, 2]):
            for k in range(3 if tier == "thorough" else 2):
                vs = (vals[4 * k:] + vals[:4 * k] + vals)[:8]
                steps = [RESET, rleaf(1, d, vs, trk=True, f32=f32), op(name, [1], 10, **par),
                         {"op": "backward", "args": [10], "seed": rt(d, draw(rnd, 8, "nz"), f32)}]
                cases.append(steps)
                # through a product, so that a vanishing derivative is visible against a large adjoint
                steps = [RESET, rleaf(1, d, vs, trk=True, f32=f32), op(name, [1], 10, **par), op("scale", [10], 11, c=rsc(1e6, f32)),
                         {"op": "backward", "args": [11]}]
                cases.append(steps)
    # softmax is row-wise: rows at very different levels in one array (each row's own exponentials are ordinary numbers)
    # (spreads of several hundred only mean something in double precision; in single precision they are out of range)
    for levels in ([-70.0, 30.0], [-40.0, 40.0], [60.0, -60.0, 0.0], [-75.0, -20.0, 25.0, 70.0], [5.0, -80.0]) + \
            (([-95.0, -97.0], [-98.0, 0.0]) if f32 else ([-400.0, 400.0], [300.0, -350.0, 0.0], [650.0, -650.0], [-720.0, -725.0], [-735.0, 0.0])):
        for n in (2, 3):
            d = [len(levels), n]
            vals = [lv + rnd.uniform(-1.0, 1.0) for lv in levels for _ in range(n)]
            # forward only at these levels: the library computes softmax as exp / sum(exp), whose DERIVATIVE squares
            # the exponentials - beyond about +-40 that under- or overflows single precision (not judged)
            cases.append([RESET, rleaf(1, d, vals, trk=False, f32=f32), op("softmax", [1], 10)])
            mild = [v * 0.45 for v in vals]
            cases.append([RESET, rleaf(1, d, mild, trk=True, f32=f32), op("softmax", [1], 10),
                          {"op": "backward", "args": [10], "seed": rt(d, draw(rnd, len(vals), "any"), f32)}])
            cases.append([RESET, rleaf(1, [1] + d, mild, trk=True, f32=f32), op("softmax", [1], 10), op("ln", [10], 11),
                          {"op": "backward", "args": [11]}])
    # very small parameters, gradients and learning rates: every step counts, however small
    for (x0, g0, lr) in ((1e-9, 1e-3, 1e-5), (2.5e-6, 4e-5, 1e-3), (0.0, 1e-4, 1e-4), (-3e-8, -2e-2, 1e-6), (1.0, 1e-6, 1e-3), (1e-3, 5e-7, 0.5)):
        for d in ([1], [3], [2, 2]):
            n = prod(d)
            xs = [x0 * (1 + 0.25 * k) for k in range(n)]
            gs = [g0 * (1 - 0.125 * k) for k in range(n)]
            cases.append([RESET, rleaf(1, d, xs, trk=True, f32=f32), rleaf(2, [2], [1.0, 2.0], trk=True, f32=f32),
                          {"op": "setgrad", "args": [1], "g": rt(d, gs, f32)},
                          {"op": "update", "args": [1, 2], "lr": rsc(lr, f32)},
                          {"op": "setgrad", "args": [1], "g": rt(d, gs, f32)},
                          {"op": "update", "args": [2, 1], "lr": rsc(lr, f32)}])
    pairs = [(a, b) for a in shapes(3, 3) for b in shapes(3, 3) if bdims(a, b)]
    for a, b in rnd.sample(pairs, 200 if tier == "thorough" else 40):
        od = bdims(a, b)
        for name in ("div", "mul", "add", "sub", "axpy"):
            trk = rnd.choice([[True, True], [True, False], [False, True]])
            steps = [RESET, rleaf(1, a, draw(rnd, prod(a), "any"), trk=trk[0], f32=f32),
                     rleaf(2, b, draw(rnd, prod(b), "nz"), trk=trk[1], f32=f32),
                     op(name, [1, 2], 10, **({"alpha": rsc(-0.7, f32)} if name == "axpy" else {})),
                     {"op": "backward", "args": [10], "seed": rt(od, draw(rnd, prod(od), "any"), f32)}]
            cases.append(steps)
    # matmul / sum / conv on real values
    for _ in range(120 if tier == "thorough" else 30):
        r, k, c = rnd.randint(1, 3), rnd.randint(1, 3), rnd.randint(1, 3)
        ta, tb = rnd.random() < 0.5, rnd.random() < 0.5
        lead = rnd.choice([[], [2]])
        da = lead + ([k, r] if ta else [r, k])
        db = [c, k] if tb else [k, c]
        steps = [RESET, rleaf(1, da, draw(rnd, prod(da), "any"), trk=True, f32=f32),
                 rleaf(2, db, draw(rnd, prod(db), "any"), trk=True, f32=f32),
                 rleaf(3, [c], draw(rnd, c, "any"), trk=True, f32=f32),
                 op("matmul", [1, 2, 3], 10, ta=ta, tb=tb),
                 {"op": "backward", "args": [10], "seed": rt(lead + [r, c], draw(rnd, prod(lead + [r, c]), "any"), f32)}]
        cases.append(steps)
        d = [rnd.randint(1, 3) for _ in range(rnd.randint(1, 3))]
        kk = rnd.randint(1, len(d))
        steps = [RESET, rleaf(1, d, draw(rnd, prod(d), "any"), trk=True, f32=f32), op("sum", [1], 10, k=kk),
                 {"op": "sum_all", "args": [1]},
                 {"op": "backward", "args": [10], "seed": rt(d[:len(d) - kk] + [1], draw(rnd, prod(d[:len(d) - kk]), "any"), f32)}]
        cases.append(steps)
        ir, ic, fr, fc = rnd.randint(2, 4), rnd.randint(2, 4), rnd.randint(1, 2), rnd.randint(1, 2)
        b = rnd.choice([[], [2]])
        sr, sc_ = rnd.randint(1, 2), rnd.randint(1, 2)
        od = b + [2, (ir - fr) // sr + 1, (ic - fc) // sc_ + 1]
        steps = [RESET, rleaf(1, b + [1, ir, ic], draw(rnd, prod(b) * ir * ic, "any"), trk=True, f32=f32),
                 rleaf(2, [2, 1, fr, fc], draw(rnd, 2 * fr * fc, "any"), trk=True, f32=f32),
                 op("conv", [1, 2], 10, sr=sr, sc=sc_),
                 {"op": "backward", "args": [10], "seed": rt(od, draw(rnd, prod(od), "any"), f32)}]
        cases.append(steps)
    return cases


def real_program_cases(tier, seed, f32=False):
    """random programs of up to 8 operations mixing transcendental and exact operations"""
    rnd = random.Random(seed)
    cases = []
    for _ in range(900 if tier == "thorough" else 160):
        d = [rnd.randint(1, 3) for _ in range(rnd.randint(1, 2))]
        n = prod(d)
        steps = [RESET]
        H = {}          # handle -> positive?
        T = {}
        for k in range(rnd.randint(1, 3)):
            pos = rnd.random() < 0.5
            T[k + 1] = rnd.random() < 0.8
            steps.append(rleaf(k + 1, d, draw(rnd, n, "pos" if pos else "any"), trk=T[k + 1], f32=f32))
            H[k + 1] = pos
        h = 10
        for _ in range(rnd.randint(2, 7)):
            a = rnd.choice(list(H))
            name = rnd.choice(["exp", "sigmoid", "softmax", "ln", "mul", "add", "div", "powf", "sub", "neg", "recip"])
            if name in ("ln", "powf", "recip") and not H[a]:
                name = "sigmoid"
            if name in ("mul", "add", "sub", "div"):
                b = rnd.choice(list(H))
                if name == "div" and not H[b]:
                    name = "mul"
                steps.append(op(name, [a, b], h))
                H[h] = H[a] and H[b] and name in ("mul", "add", "div")
            else:
                par = {"p": rsc(rnd.choice([1.5, 0.5, 2.0]), f32)} if name == "powf" else {}
                steps.append(op(name, [a], h, **par))
                H[h] = name in ("exp", "sigmoid", "softmax", "powf", "recip") and (name not in ("recip", "powf") or H[a])
            h += 1
        root = h - 1
        steps.append({"op": "backward", "args": [root], "seed": rt(d, draw(rnd, n, "any"), f32)})
        if rnd.random() < 0.4:
            steps.append({"op": "backward", "args": [rnd.choice([x for x in H if x >= 10])]})
        cases.append(steps)
    return cases


def real_model_cases(tier, seed, f32=False, iters=(2, 6), n=None):
    """dense stacks with sigmoid / softmax / relu and cross-entropy or mse, learning rate 0.1"""
    rnd = random.Random(seed)
    cases = []
    n = n or (120 if tier == "thorough" else 24)
    for _ in range(n):
        nl = rnd.choice([1, 2, 2])
        sizes = [rnd.randint(1, 3) for _ in range(nl)] + [rnd.randint(2, 3)]
        cost = rnd.choice(["ce", "ce", "mse"])
        layers = []
        for k in range(nl):
            last = k == nl - 1
            act = ("softmax" if cost == "ce" else rnd.choice(["none", "sigmoid"])) if last else rnd.choice(["sigmoid", "relu", "none"])
            init = [rnd.uniform(-0.8, 0.8) for _ in range(12)]
            layers.append({"op": "dense_new", "layer": k + 1, "in": sizes[k], "out": sizes[k + 1], "act": act,
                           "ph": [100 + 2 * k, 101 + 2 * k], "init": rt([12], init, f32)})
        steps = [RESET] + layers
        steps.append({"op": "model_new", "layers": [l["layer"] for l in layers], "lr": rsc(0.1, f32), "cost": cost})
        h = 200
        for it in range(rnd.randint(*iters)):
            b = [rnd.choice([1, 2, 3])]
            x, y, out = h, h + 1, h + 2
            steps.append(rleaf(x, b + [sizes[0]], draw(rnd, prod(b) * sizes[0], "any"), f32=f32))
            tgt = []
            for _r in range(b[0]):
                row = [0.0] * sizes[-1]
                row[rnd.randrange(sizes[-1])] = 1.0
                tgt += row if cost == "ce" else draw(rnd, sizes[-1], "any")
            steps.append(rleaf(y, b + [sizes[-1]], tgt, f32=f32))
            steps.append({"op": "m_forward", "args": [x], "res": out})
            steps.append({"op": "m_backward", "args": [y]})
            steps.append({"op": "m_update"})
            steps += [{"op": "drop", "args": [out]}, {"op": "drop", "args": [x]}, {"op": "drop", "args": [y]}]
            h += 10
        cases.append(steps)
    return cases


def real_nonfinite_loss_cases(tier, seed, f32=False):
    """C18: an iteration whose loss is not finite (an infinite / NaN target element) followed by ordinary iterations
    without an update in between (evaluation passes): once the model has moved on, the input and the target of the
    bad iteration own their buffers again.  Values are out of range here and not judged; structure is."""
    rnd = random.Random(seed)
    cases = []
    for bad in (float("inf"), float("-inf"), float("nan")):
        for nin, nout in ((1, 1), (2, 2), (3, 1)):
            for cost in ("mse", "ce"):
                act = "softmax" if cost == "ce" else rnd.choice(["none", "sigmoid", "relu"])
                if cost == "ce" and nout == 1:
                    continue
                init = [rnd.uniform(-1, 1) for _ in range(12)]
                steps = [RESET, {"op": "dense_new", "layer": 1, "in": nin, "out": nout, "act": act, "ph": [100, 101],
                                 "init": rt([12], init, f32)},
                         {"op": "model_new", "layers": [1], "lr": rsc(0.1, f32), "cost": cost}]
                h = 200
                for it in range(3):
                    x, y, out = h, h + 1, h + 2
                    steps.append(rleaf(x, [2, nin], draw(rnd, 2 * nin, "any"), f32=f32))
                    tgt = draw(rnd, 2 * nout, "pos")
                    if it == 0:
                        tgt[rnd.randrange(len(tgt))] = bad
                    steps.append(rleaf(y, [2, nout], tgt, f32=f32))
                    steps += [{"op": "m_forward", "args": [x], "res": out}, {"op": "m_backward", "args": [y]},
                              {"op": "drop", "args": [out]}]
                    if it >= 1:
                        # the model has moved on from iteration it-1
                        steps += [{"op": "into_vec", "args": [h - 10]}, {"op": "into_vec", "args": [h - 9]}]
                    h += 10
                cases.append(steps)
    return cases


def pass_sum_cases(tier, seed):
    """C10 as a RELATION between runs, bit for bit (double precision): a program with two passes on the same root
    (different seeds, nothing cleared in between) next to two fresh instances of it that run only the first / only the
    second pass.  Groups of three consecutive cases: both, first only, second only."""
    rnd = random.Random(seed)
    cases = []
    for _ in range(400 if tier == "thorough" else 90):
        d = rnd.choice([[2], [3], [2, 2]])
        n = prod(d)
        nl = rnd.randint(2, 3)
        pre = [RESET] + [rleaf(1 + k, d, [rnd.uniform(-3.0, 3.0) * 10.0 ** rnd.randint(-3, 3) for _ in range(n)], trk=True) for k in range(nl)]
        H = list(range(1, nl + 1))
        h = 10
        for _ in range(rnd.randint(2, 6)):
            name = rnd.choice(["add", "mul", "sub", "mul", "neg", "scale"])
            if name in ("neg", "scale"):
                pre.append(op(name, [rnd.choice(H)], h, **({"c": rsc(rnd.uniform(-2.0, 2.0))} if name == "scale" else {})))
            else:
                pre.append(op(name, [rnd.choice(H), rnd.choice(H[:nl])], h))      # a leaf again and again: fan-out
            H.append(h)
            h += 1
        root = H[-1]
        s1 = {"op": "backward", "args": [root], "seed": rt(d, [rnd.uniform(-2.0, 2.0) * 10.0 ** rnd.randint(-2, 6) for _ in range(n)])}
        s2 = {"op": "backward", "args": [root], "seed": rt(d, [rnd.uniform(-2.0, 2.0) for _ in range(n)])}
        cases += [pre + [s1, s2], pre + [s1], pre + [s2]]
    return cases


def relate_pass_sums(res, prog_path, ev_path, workdir):
    """post-processing hook: after both passes every gradient must be, bit for bit, the floating-point sum of the
    gradients the two passes leave when each runs alone (why = "pass-sum-differs").  Recorded observations only."""
    import json
    by_case = {}
    with open(ev_path) as f:
        for ln in f:
            e = json.loads(ln)
            by_case.setdefault(e["case"], []).append(e)
    bad_cases = {m["case"] for m in res["mismatches"]} | {u["case"] for u in res["unspec"]}

    def grads(evs):
        last = [e for e in evs if e["op"] == "backward" and not e.get("panic")]
        return {o["h"]: [unhex(x) for x in o["gt"]["hx"]] for o in last[-1]["live"] if "gt" in o} if last else None

    ncmp = 0
    for c in sorted(by_case):
        if c % 3 != 0 or {c, c + 1, c + 2} & bad_cases or c + 2 not in by_case:
            continue
        both, g1, g2 = grads(by_case[c]), grads(by_case[c + 1]), grads(by_case[c + 2])
        if both is None or g1 is None or g2 is None:
            continue
        ncmp += 1
        ok = set(both) == set(g1) == set(g2) and all(
            struct.pack("<d", x + y) == struct.pack("<d", z) or (x + y != x + y and z != z)
            for h in both for x, y, z in zip(g1[h], g2[h], both[h]))
        if not ok:
            res["mismatches"].append({"case": c, "i": by_case[c][-1]["i"], "op": "backward", "why": "pass-sum-differs"})
            res["summary"]["bad"] = res["summary"].get("bad", 0) + 1
    res["summary"]["pass_sums_compared"] = ncmp
    return res


def real_layer_cases(tier, seed, f32=False):
    """C15 in the real domain: activations sigmoid / softmax, cross-entropy cost, model value"""
    rnd = random.Random(seed)
    cases = []
    for nin in (1, 2, 3):
        for nout in (1, 2, 3):
            for act in ("sigmoid", "softmax", "relu", "none"):
                init = [rnd.uniform(-1, 1) for _ in range(12)]
                steps = [RESET, {"op": "dense_new", "layer": 1, "in": nin, "out": nout, "act": act, "ph": [100, 101],
                                 "init": rt([12], init, f32)}]
                h = 10
                for b in ([], [1], [3]):
                    steps.append(rleaf(h, b + [nin], draw(rnd, prod(b) * nin, "any"), f32=f32))
                    steps.append({"op": "layer_forward", "layer": 1, "args": [h], "res": h + 1})
                    h += 2
                # inputs that drive the pre-activation far from zero (saturating sigmoid, peaked softmax)
                for scale in (8.0, 20.0, 35.0):
                    steps.append(rleaf(h, [2, nin], [scale * v for v in draw(rnd, 2 * nin, "nz")], f32=f32))
                    steps.append({"op": "layer_forward", "layer": 1, "args": [h], "res": h + 1})
                    h += 2
                cases.append(steps)
    for d in ([2, 3], [1, 2], [3, 3], [4, 2]):
        for _ in range(3):
            n = prod(d)
            steps = [RESET, rleaf(1, d, draw(rnd, n, "pos"), trk=True, f32=f32), op("softmax", [1], 2),
                     rleaf(3, d, [float(rnd.random() < 0.4) for _ in range(n)], f32=f32),
                     {"op": "cost", "kind": "ce", "args": [2, 3], "res": 4}, {"op": "sum_all", "args": [4]},
                     {"op": "backward", "args": [4]},
                     {"op": "cost", "kind": "mse", "args": [2, 3], "res": 5}, {"op": "sum_all", "args": [5]}]
            cases.append(steps)
    # probabilities that are subnormal numbers of the format (exact operands): ln of them is an ordinary number
    tiny = [1e-42, 0.5, 3e-44, 0.25] if f32 else [1e-310, 0.5, 3e-320, 0.25]
    for tgt in ([1.0, 1.0, 1.0, 0.0], [1.0, 0.0, 0.0, 1.0]):
        cases.append([RESET, rleaf(1, [2, 2], tiny, trk=True, f32=f32), rleaf(2, [2, 2], tgt, f32=f32),
                      {"op": "cost", "kind": "ce", "args": [1, 2], "res": 3}, {"op": "sum_all", "args": [3]}, op("ln", [1], 4)])
    # one cross-entropy / mse closure applied to batches of different sizes in turn
    for order in ([3, 1, 2], [1, 4, 2], [2, 3]):
        steps = [RESET]
        h = 1
        for b in order:
            d = [b, 3]
            steps += [rleaf(h, d, draw(rnd, 3 * b, "pos"), trk=True, f32=f32), op("softmax", [h], h + 1),
                      rleaf(h + 2, d, [float(k % 3 == 1) for k in range(3 * b)], f32=f32),
                      {"op": "cost", "kind": "ce", "args": [h + 1, h + 2], "res": h + 3}, {"op": "sum_all", "args": [h + 3]},
                      {"op": "backward", "args": [h + 3]},
                      {"op": "cost", "kind": "mse", "args": [h + 1, h + 2], "res": h + 4}, {"op": "sum_all", "args": [h + 4]}]
            h += 5
        cases.append(steps)
    # cross-entropy / mse with a target of lower rank than the output ([n] against [1, n]): the leading dimension
    # that divides is the OUTPUT's
    for n in (2, 3, 5):
        for b in (1, 2):
            od = [b, n]
            td = [n] if b == 1 else [1, n]
            steps = [RESET, rleaf(1, od, draw(rnd, b * n, "pos"), trk=True, f32=f32), op("softmax", [1], 2),
                     rleaf(3, td, [float(k == 1) for k in range(n)], f32=f32),
                     {"op": "cost", "kind": "ce", "args": [2, 3], "res": 4}, {"op": "sum_all", "args": [4]},
                     {"op": "backward", "args": [4]},
                     {"op": "cost", "kind": "mse", "args": [2, 3], "res": 5}, {"op": "sum_all", "args": [5]}]
            cases.append(steps)
    for cnt in (1, 2):
        for act in ("sigmoid", "relu"):
            init = [rnd.uniform(-1, 1) for _ in range(12)]
            steps = [RESET, {"op": "conv_new", "layer": 1, "fd": [cnt, 2, 2, 2], "sr": 1, "sc": 1, "act": act, "ph": [100, 101],
                             "init": rt([12], init, f32)}]
            for k, b in enumerate(([], [2])):
                steps.append(rleaf(10 + 2 * k, b + [2, 3, 3], draw(rnd, prod(b) * 18, "any"), f32=f32))
                steps.append({"op": "layer_forward", "layer": 1, "args": [10 + 2 * k], "res": 11 + 2 * k})
            cases.append(steps)
    return cases


def real_tracking_cases(tier, seed, f32=False):
    """C09 / C18 for ln, exp, sigmoid, softmax, reciprocal, division, non-integer powf: result flags, plain gradients,
    flags restored, and the operand owns its buffer again once every result is dropped (with gradients stored)"""
    rnd = random.Random(seed)
    cases = []
    for name, kind, par in [("ln", "pos", {}), ("exp", "any", {}), ("sigmoid", "any", {}), ("softmax", "any", {}),
                            ("recip", "nz", {}), ("powf", "pos", {"p": rsc(1.5, f32)}), ("relu", "nz", {})]:
        for d in ([3], [2, 3]):
            for trk in (True, False):
                n = prod(d)
                steps = [RESET, rleaf(1, d, draw(rnd, n, kind), trk=trk, f32=f32), op(name, [1], 10, **par)]
                if trk:
                    steps += [{"op": "backward", "args": [10], "seed": rt(d, draw(rnd, n, "any"), f32)},
                              {"op": "grad", "args": [1], "res": 90}, {"op": "backward", "args": [10]},
                              {"op": "drop", "args": [10]}, {"op": "drop", "args": [90]}, {"op": "into_vec", "args": [1]}]
                else:
                    steps += [{"op": "clone", "args": [10], "res": 11}, {"op": "into_vec", "args": [1]}]
                cases.append(steps)
    for name in ("div", "mul"):
        for trk in ([True, True], [True, False], [False, True], [False, False]):
            d = [2, 2]
            steps = [RESET, rleaf(1, d, draw(rnd, 4, "any"), trk=trk[0], f32=f32), rleaf(2, d, draw(rnd, 4, "nz"), trk=trk[1], f32=f32),
                     op(name, [1, 2], 10)]
            if any(trk):
                steps += [{"op": "backward", "args": [10]}, {"op": "drop", "args": [10]}]
            else:
                steps += [{"op": "drop", "args": [10]}]
            steps += [{"op": "into_vec", "args": [1]}, {"op": "into_vec", "args": [2]}]
            cases.append(steps)
    return cases


def real_self_operand_cases(tier, seed, f32=False):
    """the same array at several positions in transcendental expressions: x / x, softmax on rank 3 and on rows with equal
    entries, exp used by two consumers with passes from both, sigmoid of sigmoid, ln of a product"""
    rnd = random.Random(seed)
    cases = []
    for d in ([3], [2, 3], [2, 2, 3]):
        n = prod(d)
        for rep in range(3 if tier == "thorough" else 1):
            x = draw(rnd, n, "pos")
            eq = [x[0]] * n if rep == 0 else x
            progs = [
                [op("div", [1, 1], 10)],
                [op("exp", [1], 9), op("mul", [9, 9], 10)],
                [op("exp", [1], 9), op("neg", [9], 10), op("scale", [9], 11, c=rsc(0.5, f32))],
                [op("softmax", [1], 10)],
                [op("sigmoid", [1], 9), op("sigmoid", [9], 10)],
                [op("mul", [1, 1], 9), op("ln", [9], 10)],
                [op("recip", [1], 9), op("mul", [9, 1], 10)],
                [op("softmax", [1], 9), op("ln", [9], 10)],
                [op("powf", [1], 9, p=rsc(0.5, f32)), op("mul", [9, 9], 10)],
            ]
            for k, ops in enumerate(progs):
                vals = eq if k == 3 else x
                steps = [RESET, rleaf(1, d, vals, trk=True, f32=f32)] + ops
                steps.append({"op": "backward", "args": [10], "seed": rt(d, draw(rnd, n, "any"), f32)})
                if k == 2:
                    steps.append({"op": "backward", "args": [11]})
                cases.append(steps)
    return cases
