"""Build / execute / validate pipeline shared by every check.

programs (ndjson)  --executor on real corgi-->  events (ndjson)  --TLC Trace*.tla-->  verdicts

The executor is a recorder, TLC is the judge; this module only moves files around, shards the
event stream at case boundaries, runs TLC processes in parallel and parses what they print.
"""
import json
import os
import re
import shutil
import subprocess
import sys
import time
from concurrent.futures import ThreadPoolExecutor

ROOT = os.path.dirname(os.path.dirname(os.path.abspath(__file__)))
SPEC = os.path.join(ROOT, "spec")
HARNESS = os.path.join(ROOT, "harness")
OUT = os.path.join(ROOT, "out")
JAVA_OPTS = "-Xss1g -Dtlc2.tool.queue.IStateQueue=StateDeque"


class ToolError(Exception):
    pass


def log(*a):
    print(*a, file=sys.stderr, flush=True)


def build_executor(f32=False):
    """(Re)build the executor against /repo's current working tree; cargo decides what to recompile."""
    tdir = "target-f32" if f32 else "target"
    harness = HARNESS
    alt = os.environ.get("VERIF_REPO")
    if alt:
        # self-tests only: build the same executor against a scratch copy of the repository (outside /repo),
        # so that /repo itself is never touched; registered checks always use /repo
        harness = os.path.join(alt.rstrip("/") + "_harness")
        os.makedirs(os.path.join(harness, "src"), exist_ok=True)
        os.makedirs(os.path.join(harness, ".cargo"), exist_ok=True)
        for rel in ("src/main.rs", ".cargo/config.toml", "Cargo.lock"):
            shutil.copy(os.path.join(HARNESS, rel), os.path.join(harness, rel))
        open(os.path.join(harness, "Cargo.toml"), "w").write(
            open(os.path.join(HARNESS, "Cargo.toml")).read().replace('path = "/repo"', 'path = "%s"' % alt))
    cmd = ["cargo", "build", "--release", "--offline", "--target-dir", tdir]
    if f32:
        cmd += ["--features", "f32"]
    env = dict(os.environ, CARGO_NET_OFFLINE="true")
    t0 = time.time()
    p = subprocess.run(cmd, cwd=harness, env=env, capture_output=True, text=True)
    if p.returncode != 0:
        raise ToolError("cargo build failed:\n" + p.stderr[-4000:])
    log("[build] executor%s ready in %.1fs" % (" (f32)" if f32 else "", time.time() - t0))
    return os.path.join(harness, tdir, "release", "corgi-verif-harness")


def write_programs(path, cases):
    """cases: list of lists of step dicts. Adds case / i fields. Returns number of steps."""
    n = 0
    with open(path, "w") as f:
        for c, steps in enumerate(cases):
            for i, s in enumerate(steps):
                s = dict(s)
                s["case"] = c
                s["i"] = i
                f.write(json.dumps(s, separators=(",", ":")) + "\n")
                n += 1
    return n


def run_executor(exe, prog_path, ev_path, real=False, timeout=1800):
    cmd = [exe, prog_path, ev_path] + (["--real"] if real else [])
    try:
        p = subprocess.run(cmd, capture_output=True, text=True, timeout=timeout)
    except subprocess.TimeoutExpired:
        raise ToolError("executor timed out")
    if p.returncode != 0:
        raise ToolError("executor failed (exit %d): %s" % (p.returncode, p.stderr[-2000:]))


def shard_events(ev_path, nshards, workdir):
    """Split the event file at 'reset' boundaries into at most nshards files of similar size."""
    with open(ev_path) as f:
        lines = f.readlines()
    starts = [i for i, ln in enumerate(lines) if '"op":"reset"' in ln]
    if not starts or starts[0] != 0:
        raise ToolError("event stream does not start with a reset")
    total = len(lines)
    nshards = max(1, min(nshards, len(starts)))
    target = total / nshards
    shards, cur, cur_start = [], 0, 0
    bounds = starts[1:] + [total]
    begin = 0
    for b in bounds:
        if b - begin >= target and len(shards) < nshards - 1:
            shards.append((begin, b))
            begin = b
    shards.append((begin, total))
    paths = []
    for k, (a, b) in enumerate(shards):
        if a == b:
            continue
        p = os.path.join(workdir, "shard_%d_%s_%02d.ndjson" % (os.getpid(), os.path.basename(ev_path).split(".")[0], k))
        with open(p, "w") as f:
            f.writelines(lines[a:b])
        paths.append((p, b - a))
    return paths


MIS_RE = re.compile(r'^<<"MISMATCH", (-?\d+), (-?\d+), "([^"]*)", "([^"]*)">>')
UNS_RE = re.compile(r'^<<"(UNSPEC|LEFTEXACT)", (-?\d+), (-?\d+), "([^"]*)">>')
SUM_RE = re.compile(r'^<<"SUMMARY", "(.*)", "events", (\d+)>>')
DEF_RE = re.compile(r'^<<"DEF", "(.*)">>$')


def run_tlc_trace(spec, shard_path, nevents, workdir, tag, timeout=3000, want_defs=False, f32=False):
    meta = os.path.join(workdir, "meta_" + tag)
    env = dict(os.environ, TRACE=shard_path, JAVA_TOOL_OPTIONS=JAVA_OPTS)
    if f32:
        env["VERIF_LIM"] = "4194303"
    else:
        env.pop("VERIF_LIM", None)
    cmd = ["tlc", "-workers", "1", "-metadir", meta, "-cleanup", "-noGenerateSpecTE",
           "-config", os.path.join(SPEC, spec + ".cfg"), os.path.join(SPEC, spec + ".tla")]
    try:
        p = subprocess.run(cmd, cwd=workdir, env=env, capture_output=True, text=True, timeout=timeout)
    except subprocess.TimeoutExpired:
        raise ToolError("TLC trace validation timed out on " + shard_path)
    finally:
        shutil.rmtree(meta, ignore_errors=True)
    out = p.stdout
    mism, unspec, summary, defs = [], [], None, []
    for ln in out.splitlines():
        m = MIS_RE.match(ln)
        if m:
            mism.append({"case": int(m.group(1)), "i": int(m.group(2)), "op": m.group(3), "why": m.group(4)})
            continue
        m = UNS_RE.match(ln)
        if m:
            unspec.append({"kind": m.group(1), "case": int(m.group(2)), "i": int(m.group(3)), "op": m.group(4)})
            continue
        m = SUM_RE.match(ln)
        if m:
            summary = json.loads(m.group(1).replace('\\"', '"'))
            summary["events"] = int(m.group(2))
            continue
        if want_defs:
            m = DEF_RE.match(ln)
            if m:
                defs.append(json.loads(json.loads('"' + m.group(1) + '"')))
    ok = "Model checking completed. No error has been found." in out
    if not ok or summary is None or summary["events"] != nevents:
        tail = "\n".join(out.splitlines()[-40:])
        raise ToolError("TLC did not accept/consume trace %s (tool problem, not a verdict):\n%s\n%s"
                        % (shard_path, tail, p.stderr[-1500:]))
    m = re.search(r"(\d+) states generated, (\d+) distinct states found", out)
    summary["tlc_states"] = int(m.group(2)) if m else 0
    summary["tlc_transitions"] = int(m.group(1)) if m else 0
    if spec == "TraceReal":
        # values of the real domain: evaluate the terms TLC printed (lib/realdom.py)
        import realdom
        evs = {}
        with open(shard_path) as f:
            for ln in f:
                e = json.loads(ln)
                evs[(e["case"], e["i"])] = e
        skipped = {x["case"] for x in mism} | {x["case"] for x in unspec}
        rm, rstats = realdom.judge(out.splitlines(), evs, f32=f32)
        first = {}
        for x in rm:
            if x["case"] not in skipped and x["case"] not in first:
                first[x["case"]] = x
        mism += list(first.values())
        summary["bad"] = summary.get("bad", 0) + len(first)
        summary.update({k: v for k, v in rstats.items() if k != "real_worst_ulps"})
        summary["real_worst_ulps_x1000"] = int(rstats["real_worst_ulps"] * 1000)
    return {"mismatches": mism, "unspec": unspec, "summary": summary, "defs": defs}


def validate(spec, ev_path, workdir, nshards=12, want_defs=False, f32=False):
    shards = shard_events(ev_path, nshards, workdir)
    t0 = time.time()
    with ThreadPoolExecutor(max_workers=len(shards)) as ex:
        futs = [ex.submit(run_tlc_trace, spec, p, n, workdir, "%s_%d" % (spec, k), 3000, want_defs, f32)
                for k, (p, n) in enumerate(shards)]
        results = [f.result() for f in futs]
    tot = {}
    mism, unspec, defs = [], [], []
    for r in results:
        mism += r["mismatches"]
        unspec += r["unspec"]
        defs += r["defs"]
        for k, v in r["summary"].items():
            tot[k] = max(tot.get(k, 0), v) if k.startswith("real_worst") else tot.get(k, 0) + v
    log("[tlc] %s: %d events in %d shards, %d mismatching cases, %d unspecified, %.1fs"
        % (spec, tot.get("events", 0), len(shards), len(mism), len(unspec), time.time() - t0))
    for p, _ in shards:
        os.remove(p)
    return {"mismatches": mism, "unspec": unspec, "summary": tot, "defs": defs}


def run_tlc_mc(module, cfg, workdir, workers=8, timeout=3000, extra=None, simulate=None, coverage=False):
    """Model-check spec/<module>.tla with spec/<cfg>.cfg; returns stats + coverage, raises on violation."""
    meta = os.path.join(workdir, "meta_mc_" + cfg)
    cmd = ["tlc", "-workers", str(workers), "-metadir", meta, "-cleanup", "-noGenerateSpecTE",
           "-config", os.path.join(SPEC, cfg + ".cfg")]
    if coverage or os.environ.get("VERIF_COVERAGE"):
        cmd += ["-coverage", "1"]      # per-action counts (slow); used by the self-diagnosis runs
    if simulate:
        cmd += ["-simulate", simulate[0], "-depth", str(simulate[1])]
    cmd += (extra or []) + [os.path.join(SPEC, module + ".tla")]
    env = dict(os.environ, JAVA_TOOL_OPTIONS="-Xss512m")
    t0 = time.time()
    try:
        p = subprocess.run(cmd, cwd=workdir, env=env, capture_output=True, text=True, timeout=timeout)
        timed_out = False
        out = p.stdout
    except subprocess.TimeoutExpired as e:
        timed_out = True
        out = (e.stdout or b"").decode() if isinstance(e.stdout, bytes) else (e.stdout or "")
    finally:
        shutil.rmtree(meta, ignore_errors=True)
    res = {"module": module, "cfg": cfg, "wall_s": round(time.time() - t0, 1), "timed_out": timed_out}
    m = re.findall(r"(\d+) states generated, (\d+) distinct states found", out)
    if m:
        res["transitions"], res["states"] = int(m[-1][0]), int(m[-1][1])
    else:
        m2 = re.findall(r"(\d+) states checked", out)
        res["transitions"] = res["states"] = int(m2[-1]) if m2 else 0
    md = re.search(r"depth of the complete state graph search is (\d+)", out)
    res["depth"] = int(md.group(1)) if md else None
    res["completed"] = "Model checking completed. No error has been found." in out
    res["violated"] = None
    mv = re.search(r"Error: Invariant (\S+) is violated", out) or re.search(r"Error: Action property (\S+) is violated", out) \
        or re.search(r"Error: Temporal properties were violated", out)
    if mv:
        res["violated"] = mv.group(0)
    cov = {}
    for mm in re.finditer(r"^<(\w+) line \d+, col \d+ to line \d+, col \d+ of module (\w+)[^>]*>: (\d+):(\d+)", out, re.M):
        cov[mm.group(1)] = cov.get(mm.group(1), 0) + int(mm.group(4))
    res["action_coverage"] = cov
    res["stdout_tail"] = "\n".join(out.splitlines()[-25:])
    res["stdout"] = out
    if not res["completed"] and not res["violated"] and not (simulate or timed_out):
        raise ToolError("TLC model checking of %s/%s failed:\n%s" % (module, cfg, res["stdout_tail"]))
    log("[tlc] MC %s/%s: %s states, %s transitions, depth %s, %.1fs%s" % (
        module, cfg, res.get("states"), res.get("transitions"), res["depth"], res["wall_s"],
        " -- TLC reports: " + res["violated"] if res["violated"] else ""))
    return res
