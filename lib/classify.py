#!/usr/bin/env python3
"""debug aid: classify dumped mismatches (VERIF_DUMP=1) by failing step and operand shapes"""
import json, collections, sys
path = sys.argv[1]
ms = json.load(open(path))
c = collections.Counter(); ex = {}
for x in ms:
    st = x['program']; m = x['m']
    leaves = {s['res']: (s['d'], s.get('trk')) for s in st if s['op'] == 'leaf'}
    ops = [s for s in st if s['op'] not in ('reset', 'leaf', 'backward', 'grad')]
    o = ops[0] if ops else {}
    key = (m['why'], m['op'], o.get('op'))
    c[key] += 1
    ex.setdefault(key, []).append((leaves, {k: v for k, v in o.items() if k not in ('case', 'i')}))
for k, v in sorted(c.items(), key=lambda kv: -kv[1]):
    print(v, k)
    for e in ex[k][:3]:
        print('      ', e)
