"""Per-property registry: which bounded models are checked and which scenario families are validated."""
import random
import fam_shapes as FS
import fam_engine as FE
import fam_model as FM
import fam_real as FR

COMMON_ASSUMPTIONS = [
    "TLC / SANY and the CommunityModules Json reader are trusted",
    "the executor maps one program step to one public API call of corgi (no comparison logic inside)",
    "exact domain: inputs are dyadic rationals with small mantissas, so IEEE results are order-independent and must equal the specification bit for bit",
    "non-BLAS build only (the BLAS features cannot be built offline)",
]


M_GRAD = {"replace-gradient-result", "grad-value", "grad-dims", "grad-presence", "backward-panic", "control-flow", "comparison", "observation-panic"}
M_EVAL = {"eval-set", "eval-once", "eval-adjoint", "eval-order", "eval-flags", "eval-budget-exhausted", "backward-panic"}
M_TRACK = {"eval-flags", "tracked-flag", "previous-flag", "grad-presence", "grad-tracked", "into_vec-should-succeed", "grad-value", "observation-panic"}
M_OWN = {"into_vec-should-succeed", "grad-tracked"}
M_IMM = {"immutable", "live-set"}
M_UPD = {"update-values", "update-dims", "tracked-flag", "grad-presence", "unexpected-panic"}
ENGINE_NOTE = ("bounded: all graphs / flag assignments / pass histories within the stated constants are explored by TLC, seeded random and TLC-simulated programs beyond; "
               "verdicts use API observables only (values, gradients, flags, Vec::from, user derivative closures); trusted: TLC/SANY, Json module, executor step-to-API mapping")


def mc(cfg, module="MC_Engine", **kw):
    d = {"module": module, "cfg": cfg}
    d.update(kw)
    return d


def tlc_family(name, cfg, workdir_tag, simulate=None, limit=None, seed=1, **kw):
    """programs enumerated / simulated by TLC from GenEngine.tla"""
    import os, random
    import pipeline as P
    progs, st = FE.tlc_programs(cfg, os.path.join(P.OUT, "gen_" + workdir_tag + os.environ.get("VERIF_TAG", "")), simulate=simulate, seed=seed,
                                limit=limit, rnd=random.Random(seed))
    d = {"name": name, "cases": progs, "gen_stats": st,
         "what": "programs %s by TLC from spec/GenEngine.tla with %s.cfg (%d behaviours%s)" % (
             "simulated" if simulate else "enumerated", cfg, st["programs"],
             ", sampled down to %d" % limit if limit and st["programs"] > limit else "")}
    d.update(kw)
    return d


def finding_key(pid, mismatch, steps):
    """identify a failing class by property, failing step, reason and a coarse input predicate"""
    st = [s for s in steps if s["i"] == mismatch["i"]]
    op = st[0]["op"] if st else mismatch["op"]
    return "%s/%s/%s" % (pid, op, mismatch["why"])


NOT_APPLICABLE = {}

TRACE_NOTE = ("bounded: exhaustive only within the stated constants, seeded random beyond; trusted: TLC/SANY, the Json module, "
              "the executor's step-to-API mapping, exact float<->dyadic conversion")

PROPERTIES = {
    "C04": {
        "level_text": "TLC evaluates the TLA+ definition of right-aligned broadcasting (TensorCore!EW, BOK, BDims) on every one of the 14400 ordered shape pairs of rank 1..4 / sizes 1..3 and on random larger pairs, and the trace specification requires the real crate's result (dims and every element, bit for bit) or its refusal to equal it; TLC also runs the crate's own walking algorithm (KernelImpl: sliced_op plan, odometer, slice offsets; flatten_to; Array::matmul shape derivation and matmul_slice - transcribed from the code as a state machine) on every call within a bound and checks that each finished run equals this definition and refuses exactly what it refuses (MC_Kernels: KernelRefines, RefusesExactly, Terminates)",
        "level_note": TRACE_NOTE,
        "technique": "TLA+ spec as exhaustive case oracle + TLC trace validation of executions of the real crate",
        "mc": lambda tier: [mc("MC_Kernels_" + tier, module="MC_Kernels", workers=6), mc("MC_Kernels_neg1", module="MC_Kernels", workers=4, expect_violation="KernelRefines")],
        "families": lambda tier, seed: [
            {"name": "ew_pairs", "cases": FS.c04_cases(tier, seed), "exhaustive": True,
             "what": "all 14400 ordered shape pairs rank 1..4 sizes 1..3 (add on every pair; sub/mul/axpy/div on "
                     + ("every pair" if tier == "thorough" else "a seeded sample of 1500") + ") plus random pairs with sizes up to 6",
             "require": {"judged": 1000, "refusals": 1000}},
            {"name": "special_values", "cases": FE.special_value_cases(tier, seed), "mask": {"values", "dims", "unexpected-panic", "equality", "index-value"},
             "what": "element-wise operations on operands that are all zeros / ones / equal / tiny / contain single zeros"},
        ],
        "rule": "a case = one ordered pair of operand shapes with position-coded values and the listed element-wise operations; distinct by program hash; non-trivial = at least one operation admitted or refused by the broadcasting rule",
    },
    "C16": {
        "level_text": "TLC evaluates the TLA+ definitions of construction (LeafOK, nested concatenation), row-major layout (Flatten/Unflat) and equality on all 120 shapes of rank 1..4 / sizes 1..3 - every in-range multi-index and flat index, zero / ragged / miscounted constructions, nesting depth 1..4 - and the trace specification requires the real crate's values, refusals and equality answers to equal them",
        "level_note": TRACE_NOTE,
        "technique": "TLA+ spec as exhaustive case oracle + TLC trace validation of executions of the real crate",
        "families": lambda tier, seed: [
            {"name": "construct_index_eq", "cases": FS.c16_cases(tier, seed), "exhaustive": True,
             "what": "all shapes rank<=4 sizes<=3: dims+values / zeros / flat / nested constructors, every index, refusals, equality across tracking state, graph and gradient",
             "require": {"judged": 3000, "refusals": 300, "owned": 20}},
            {"name": "special_values", "cases": FE.special_value_cases(tier, seed + 3), "mask": {"equality", "index-value", "values", "dims", "approx-equality"},
             "what": "equality, nested construction and indexing on arrays with repeated rows, zeros produced with either sign (negated zeros, products with negative numbers), equal elements, values differing by 2^-20"},
        ],
        "rule": "a case = one shape with its constructions, all of its indices, or one equality scenario; distinct by program hash",
    },
    "C07": {
        "level_text": "TLC evaluates the TLA+ definitions of sum(k), sum_all, reshape (and its refusal) and the point-wise operations on all 120 shapes of rank 1..4 / sizes 1..3 with every k, every factorisation as reshape target and the listed scalar parameters; the trace specification requires the real crate's dims and values (bit for bit in the exact domain) to equal them; transcendental functions are judged through spec-generated symbolic definitions (real domain); TLC also runs the crate's own walking algorithm (KernelImpl: sliced_op plan, odometer, slice offsets; flatten_to; Array::matmul shape derivation and matmul_slice - transcribed from the code as a state machine) on every call within a bound and checks that each finished run equals this definition and refuses exactly what it refuses (MC_Kernels: KernelRefines, RefusesExactly, Terminates)",
        "level_note": TRACE_NOTE,
        "technique": "TLA+ spec as exhaustive case oracle + TLC trace validation of executions of the real crate",
        "mc": lambda tier: [mc("MC_Kernels_" + tier, module="MC_Kernels", workers=6)],
        "families": lambda tier, seed: [
            {"name": "reduce_reshape_pointwise", "cases": FS.c07_cases(tier, seed), "exhaustive": True,
             "what": "all shapes rank<=4 sizes<=3 x sum(k) for every k, sum_all, reshape to every factorisation and to refused targets, neg/scale/powf(n)/reciprocal/relu on dyadic values",
             "require": {"judged": 3000, "refusals": 300}},
            {"name": "special_values", "cases": FE.special_value_cases(tier, seed + 2), "mask": {"values", "dims", "unexpected-panic"},
             "what": "point-wise functions, sums and reshape on all-zero / all-one / equal / tiny (2^-40) / single-zero arrays"},
            {"name": "pointwise_real", "cases": FR.real_op_cases(tier, seed + 1), "spec": "TraceReal", "real": True,
             "mask": {"real-value", "dims", "unexpected-panic", "values"},
             "what": "real domain: ln, exp, sigmoid, softmax (= exp / sum of exp over the last dimension), powf with non-integer exponents, reciprocal on random real values",
             "require": {"real_checked": 5000}},
        ],
        "rule": "a case = one shape with all reductions and point-wise operations, or one shape with its reshape targets; distinct by program hash",
    },
    "C05": {
        "level_text": "TLC evaluates the TLA+ index-formula definition of the batched, optionally transposed matrix product with additive term (TensorCore!Matmul, MatmulShape) on an enumeration of (rows, inner, cols) in 1..3 x 4 flag pairs x 49 leading-dimension patterns x 7 additive-term forms, inner-dimension mismatches and the rank-1 forms; the trace specification requires the real crate's dims, every element (bit for bit) or refusal to equal it; TLC also runs the crate's own walking algorithm (KernelImpl: sliced_op plan, odometer, slice offsets; flatten_to; Array::matmul shape derivation and matmul_slice - transcribed from the code as a state machine) on every call within a bound and checks that each finished run equals this definition and refuses exactly what it refuses (MC_Kernels: KernelRefines, RefusesExactly, Terminates)",
        "level_note": TRACE_NOTE + "; forms the property leaves undefined (two rank-1 operands with a flag, additive terms with leading dimensions) are never judged",
        "technique": "TLA+ spec as case oracle + TLC trace validation of executions of the real crate",
        "mc": lambda tier: [mc("MC_Kernels_" + tier, module="MC_Kernels", workers=6)],
        "families": lambda tier, seed: [
            {"name": "matmul", "cases": FS.c05_cases(tier, seed),
             "what": "seeded sample of the 37044-point space sizes<=3 x flags x leading patterns x additive forms, all inner mismatches, rank-1 forms, random sizes up to 5",
             "require": {"judged": 1000, "refusals": 100}},
        ],
        "rule": "a case = one operand-shape / flag / additive-term combination with position-coded integer values; distinct by program hash",
    },
    "C06": {
        "level_text": "TLC evaluates the direct sliding-window definition of convolution (TensorCore!Conv, no im2col in the specification) over image sizes 1..5, depth 1..2, filter count 1..2, filters up to 3x3, both strides 1..3 independently and batch absent / 1 / 2 / 3 / [2,2]; the trace specification requires the real crate's dims and every element (bit for bit) to equal it; TLC also checks (MC_Composite) that the operations the crate composes out of others - a-b, softmax, mse, cross-entropy, conv = expand_conv(matmul(unroll_blocks, reshape^T)), the layer bodies - equal the single-node definitions used here, forward value and chained gradient, and that the accumulating roll is the adjoint of unroll",
        "level_note": TRACE_NOTE + "; filters larger than the image and zero strides are not defined by the property and never judged",
        "technique": "TLA+ spec as case oracle (TLC also checks the code's im2col decomposition against it) + TLC trace validation of executions of the real crate",
        "mc": lambda tier: [mc("MC_Composite_" + tier, module="MC_Composite", workers=6)],
        "families": lambda tier, seed: [
            {"name": "conv", "cases": FS.c06_cases(tier, seed),
             "what": "seeded sample of the enumerated space (image<=5x5, depth<=2, count<=2, filter<=3x3, strides 1..3, five batch forms), depth mismatches, random larger images",
             "require": {"judged": 1000, "refusals": 50}},
        ],
        "rule": "a case = one image/filter/stride/batch combination with integer values; distinct by program hash",
    },
    "C02": {
        "level_text": "TensorCore!Vjp defines the transpose-Jacobian of every operation from its forward definition (LinVjp: <seed, F(e_j)> on basis vectors for every operation linear in the differentiated operand; a table of scalar partials for the point-wise rest); TLC evaluates it for each operation x parameterisation x broadcast pattern x tracked subset with non-uniform (prime) seeds and the trace specification requires the gradients the real crate deposits to equal it bit for bit; TLC also checks (MC_Composite) that the operations the crate composes out of others - a-b, softmax, mse, cross-entropy, conv = expand_conv(matmul(unroll_blocks, reshape^T)), the layer bodies - equal the single-node definitions used here, forward value and chained gradient, and that the accumulating roll is the adjoint of unroll",
        "level_note": TRACE_NOTE + "; transcendental operations (ln, exp, sigmoid, softmax, non-integer powf, general division) are judged in the real domain through spec-generated symbolic definitions",
        "technique": "TLA+ spec (definition-derived VJPs, checked against dual numbers by TLC) as case oracle + TLC trace validation of executions of the real crate",
        "mc": lambda tier: [mc("MC_Rules_quick" if tier == "quick" else "MC_Rules_thorough", module="MC_Rules", workers=10),
                            mc("MC_Composite_" + tier, module="MC_Composite", workers=6),
                            mc("MC_Composite_neg", module="MC_Composite", workers=2, expect_violation="NonAccumulatingRollAlsoRight")],
        "families": lambda tier, seed: [
            {"name": "single_op_vjp", "cases": FE.c02_cases(tier, seed),
             "what": "one operation per case, backward with a prime-valued seed, every deposited gradient compared: element-wise ops over broadcast pairs and tracked subsets, neg/scale/powf(-2..4)/reciprocal/relu/sum(k)/reshape, matmul (flags, additive term, leading patterns, rank-1 forms), conv (strides 1..3, batches), user operations",
             "require": {"judged": 1500, "passes": 1500}},
            {"name": "self_operands", "cases": FE.self_operand_cases(tier, seed),
             "what": "the same array at several operand positions and expressions that repeat or cancel: x/x, a-a, a*a, axpy(0|1, a, a), neg(neg a), relu(a)*a, scale by 1, powf 1, a x a^T, nested reshapes, sum then add back, one node with two consumers and passes from both",
             "require": {"passes": 60}},
            {"name": "self_operands_real", "cases": FR.real_self_operand_cases(tier, seed), "spec": "TraceReal", "real": True,
             "what": "real domain: x/x, exp used twice, softmax on rank 3 and on rows of equal entries, sigmoid of sigmoid, ln of a product, reciprocal times itself",
             "require": {"real_checked": 300}},
            {"name": "matmul_rank1", "cases": FE.rank1_matmul_cases(tier, seed),
             "what": "matmul with a rank-1 operand next to a rank>=2 operand: vector x matrix, matrix x vector, single-column and single-row partners, sizes 1..3, both flags, batches [], [2], [2,2], every tracked subset, with and without additive term - forward value and every gradient",
             "require": {"passes": 300}},
            {"name": "special_values", "cases": FE.special_value_cases(tier, seed),
             "what": "value-dependent corners: operands that are all zeros / all ones / all equal / contain one zero or one / tiny magnitudes / repeated rows, through every element-wise and unary operation with gradients, result flags, equality, nested construction and indexing",
             "require": {"passes": 500}},
            {"name": "single_op_vjp_large", "cases": FE.c02_large_cases(tier, seed),
             "what": "beyond the exhaustive sizes: element-wise gradients with dimensions up to 6 and rank up to 4, matmul up to 6x6x6 with leading dimensions and additive terms, sum(k), conv on images up to 8x8 with filters up to 4x4, strides up to 4, batches up to 4",
             "require": {"passes": 100}},
            {"name": "single_op_vjp_real", "cases": FR.real_op_cases(tier, seed), "spec": "TraceReal", "real": True,
             "what": "real domain: ln, exp, sigmoid, softmax, reciprocal, powf with exponents 2.5 / 0.5 / -1.5 / integers, general division and the exact operations on random real values; forward value and every gradient compared through spec-generated terms (tolerance 16 ulp of the term magnitude)",
             "require": {"passes": 400, "real_checked": 5000}},
        ],
        "rule": "a case = one operation with one parameterisation, operand shapes, tracked subset and seed; distinct by program hash",
    },
    "C01": {
        "level_text": "AutodiffAbs!RefAdj is a counter-free definition of the adjoint of every node (sum over tracked uses by reached consumers of the definition-derived VJPs); TLC checks that the implementation-shaped pass AutodiffImpl (consumer counts, pending sums, depth-first recursion) implements it on every graph of <=2 (thorough <=3) operations with every tracked/untracked operand choice and root (as invariants - PassRefinesAbs - and as a refinement: PROPERTY AbsRefined, every behaviour of AutodiffImpl is a behaviour of the atomic AutodiffAbsSpec under the mapping 'state at pass begin while a pass runs'; also that the linear scatter form of RefAdj used by the validators equals the gather definition: AdjFormsAgree, StoreFormsAgree), and the trace specification requires every gradient the real crate deposits - on TLC-enumerated graphs, TLC-simulated histories and random tensor programs with data-dependent control flow - to equal it bit for bit",
        "level_note": ENGINE_NOTE,
        "technique": "TLC model checking of AutodiffImpl against AutodiffAbs + TLC trace validation of spec-generated and random programs run on the real crate",
        "mc": lambda tier: [mc("MC_Engine_p1" if tier == "quick" else "MC_Engine_t3"),
                            mc("GenEngine_forms", module="GenEngine")] + ([mc("MC_Engine_refine")] if tier == "thorough" else []),
        "families": lambda tier, seed: [
            tlc_family("tlc_graphs", "GenEngine_pass", "C01", limit=2500 if tier == "quick" else 30000, seed=seed,
                       mask=M_GRAD, exhaustive=True, require={"passes": 1000}),
            {"name": "random_programs", "cases": FE.random_cases(seed, 1200 if tier == "quick" else 12000), "mask": M_GRAD,
             "what": "seeded random programs over add/sub/mul/div/axpy/neg/scale/powf/sum/reshape/matmul/relu/user ops with broadcasting, clones, drops, flag changes, several passes and data-dependent branches (cmp / when)",
             "require": {"passes": 1000}},
            {"name": "scale", "cases": FE.scale_cases(tier, seed), "mask": M_GRAD,
             "what": "scale beyond the exhaustive bound: one leaf with up to 300 (thorough 520) consumers, chains of up to 90 (130) built-in operations, up to 9 passes with drops and clears in between, 12 results alive at once, programs of 25-45 steps",
             "require": {"passes": 40}},
            {"name": "self_operands", "cases": FE.self_operand_cases(tier, seed + 2), "mask": M_GRAD,
             "what": "one array at several operand positions, against clones and reshaped views of itself (shared buffers) with broadcasting, expressions that repeat or cancel",
             "require": {"passes": 60}},
            {"name": "suite_derived", "cases": FE.suite_derived_cases(), "mask": M_GRAD | {"values", "dims", "tracked-flag", "immutable"},
             "what": "the README / module-doc loop with its data-dependent branch (four parameter sets) and the graphs of the repository's own backward tests, with every value, flag and gradient validated at every step",
             "require": {"passes": 15}},
            {"name": "real_programs", "cases": FR.real_program_cases(tier, seed), "spec": "TraceReal", "real": True,
             "mask": M_GRAD | {"real-value"},
             "what": "real domain: random programs of up to 8 operations mixing exp, ln, sigmoid, softmax, division, powf, reciprocal with the exact operations, one or two passes",
             "require": {"passes": 150, "real_checked": 2000}},
        ],
        "rule": "a case = one program (graph construction + passes); distinct by program hash; non-trivial = contains at least one backward pass whose gradients are compared",
    },
    "C03": {
        "level_text": "In the specification every contribution is the VJP on the operand's own dimensions (ReduceTo = sum over broadcast positions), GradShape/GradDims are invariants of the model-checked specs, and the trace specification requires dims and values of every stored gradient of broadcast operands used 1..3 times over 1..2 passes (and the parameters after a following update) to equal the specification's; TLC also runs the crate's own walking algorithm (KernelImpl: sliced_op plan, odometer, slice offsets; flatten_to; Array::matmul shape derivation and matmul_slice - transcribed from the code as a state machine) on every call within a bound and checks that each finished run equals this definition and refuses exactly what it refuses (MC_Kernels: KernelRefines, RefusesExactly, Terminates)",
        "level_note": ENGINE_NOTE,
        "technique": "TLC model checking (GradShape on AutodiffImpl with broadcast leaves) + TLC trace validation of enumerated broadcast programs on the real crate",
        "mc": lambda tier: [mc("MC_Engine_bc" if tier == "quick" else "MC_Engine_t3bc"),
                            mc("MC_Kernels_" + tier, module="MC_Kernels", workers=6),
                            mc("MC_Kernels_neg2", module="MC_Kernels", workers=4, expect_violation="KernelRefines")],
        "families": lambda tier, seed: [
            {"name": "broadcast_uses", "cases": FE.c03_cases(tier, seed), "mask": M_GRAD | M_UPD,
             "what": "operand a broadcast to b's shape (all strictly-broadcast pairs rank<=3 sizes<=3, sampled in quick) used 1..3 times through add/sub/mul/axpy, 1..2 passes with prime seeds, then a two-parameter update; matmul additive terms over rows and batches",
             "require": {"passes": 400, "updates": 200}},
            tlc_family("tlc_broadcast_graphs", "GenEngine_bcpass", "C03", limit=2500 if tier == "quick" else 30000, seed=seed,
                       mask=M_GRAD, exhaustive=True, require={"passes": 1000}),
        ],
        "rule": "a case = one broadcast pair x number of uses x number of passes; distinct by program hash",
    },
    "C09": {
        "level_text": "The specification fixes tracking per handle (Apply: result tracked and operands recorded iff some operand handle is tracked; Backward reaches only through tracked-at-use edges; gradient arrays are plain); TLC checks KidsIffTracked and the refinement AbsRefined (AutodiffImpl implements the atomic AutodiffAbsSpec) over all flag assignments incl. the start_tracking-without-keep handles, and the trace specification compares, after every step of spec-generated and random programs on the real crate, every live handle's tracked flag (API round trip), gradient presence, gradient tracking, previous-flag return values and Vec::from of operands of untracked results",
        "level_note": ENGINE_NOTE + "; gradient presence on interior nodes reached through a handle without keep is left to the implementation (may-store), as the property allows",
        "technique": "TLC model checking (flag variants) + TLC trace validation of flag-heavy programs on the real crate",
        "mc": lambda tier: [mc("MC_Engine_refine" if tier == "quick" else "MC_Engine_t2p"), mc("GenEngine_mc", module="GenEngine")],
        "families": lambda tier, seed: [
            {"name": "tracking_rules", "cases": FE.c09_cases(tier, seed), "mask": M_TRACK,
             "what": "every operation x every tracked subset of its operands (result flag, no reference kept when untracked, gradients only where tracked, flags restored after passes, gradients plain), untracked intermediates, random flag-heavy programs",
             "require": {"passes": 300, "owned": 30}},
            {"name": "special_values", "cases": FE.special_value_cases(tier, seed + 1), "mask": M_TRACK,
             "what": "tracking rules must not depend on values: all-zero / all-one / equal operands"},
            {"name": "keep_flags", "cases": FE.keep_flag_cases(tier, seed), "mask": M_TRACK,
             "what": "which handle decides whether an interior node stores its gradient: every combination of tracked / untracked / start / stop on a result and on a clone of it, before or after it is used as a root or operand (250 programs)",
             "require": {"passes": 300}},
            {"name": "model_tracking", "cases": FM.c14_cases(tier, seed + 7), "mask": M_TRACK,
             "what": "models with all parameters frozen, empty models and inference loops: the output is untracked and nothing receives a gradient; frozen / unfrozen parameters in training loops",
             "require": {"passes": 50}},
            {"name": "tracking_rules_real", "cases": FR.real_tracking_cases(tier, seed), "spec": "TraceReal", "real": True,
             "mask": M_TRACK | {"unexpected-panic"},
             "what": "the transcendental operations (ln, exp, sigmoid, softmax, reciprocal, powf 1.5, division): result flags, gradients plain and untracked, operands own their buffers again after the results are dropped",
             "require": {"owned": 20}},
            tlc_family("tlc_flag_histories", "GenEngine_hist", "C09", simulate=(150 if tier == "quick" else 1500, 20), seed=seed,
                       mask=M_TRACK, require={"passes": 500}),
        ],
        "rule": "a case = one program; distinct by program hash; non-trivial = at least one flag observation after an operation or pass",
    },
    "C10": {
        "level_text": "GradExact over histories: the abstract pass reads only the graph (never counters or pending sums), gradients accumulate into the slot; TLC checks NoResidue / PassRefinesAbs for two consecutive passes from ANY handles with clears in between on every graph within the bound, and the trace specification validates spec-generated histories (flag changes, clears, drops, passes from interior nodes and from results containing them) and random histories on the real crate, comparing every gradient after every pass",
        "level_note": ENGINE_NOTE,
        "technique": "TLC model checking of 2-pass histories + TLC trace validation of TLC-simulated and random histories on the real crate",
        "mc": lambda tier: [mc("MC_Engine_p2" if tier == "thorough" else "MC_Engine_p2q"),
                            mc("MC_Engine_noguard", expect_violation="NoResidue")],
        "families": lambda tier, seed: [
            tlc_family("tlc_histories", "GenEngine_hist", "C10", simulate=(250 if tier == "quick" else 2500, 20), seed=seed + 1,
                       mask=M_GRAD, require={"passes": 1500}),
            tlc_family("tlc_small_histories", "GenEngine_hist2q" if tier == "quick" else "GenEngine_hist2", "C10b", limit=2500 if tier == "quick" else 40000, seed=seed,
                       mask=M_GRAD, exhaustive=True, require={"passes": 1000}),
            {"name": "scale_histories", "cases": FE.scale_cases(tier, seed + 1), "mask": M_GRAD,
             "what": "many passes over one graph with drops / clears, wide fan-out, deep chains", "require": {"passes": 40}},
            {"name": "quiet_histories", "cases": FE.quiet_cases(seed + 4, 250 if tier == "quick" else 2500, nsteps=(6, 16), p_pass=0.35), "mask": M_GRAD,
             "what": "random histories (and the pattern passes - clear through gradient_mut - passes) during which the harness reads nothing: every live handle is observed once, after the last step - results must not depend on being watched",
             "require": {"passes": 500}},
            {"name": "pass_sums_bitwise", "cases": FR.pass_sum_cases(tier, seed), "spec": "TraceReal", "real": True, "post": FR.relate_pass_sums,
             "mask": {"pass-sum-differs", "real-value", "grad-presence"},
             "what": "relation between runs, bit for bit in double precision: after two passes every gradient is the floating-point sum of what each pass leaves when it runs alone (three fresh instances per program: both passes, first only, second only)",
             "require": {"pass_sums_compared": 50}},
            tlc_family("tlc_update_histories", "GenEngine_upd", "C10u", simulate=(60 if tier == "quick" else 600, 20), seed=seed + 7,
                       mask=M_GRAD, require={"passes": 500}),
            {"name": "random_histories", "cases": FE.random_cases(seed + 3, 600 if tier == "quick" else 6000, nsteps=(8, 22), p_pass=0.3),
             "mask": M_GRAD, "what": "random programs with many passes, clears and flag changes over a shared leaf pool",
             "require": {"passes": 1500}},
        ],
        "rule": "a case = one history; distinct by program hash; non-trivial = at least two passes or a pass after a flag change / clear",
    },
    "C11": {
        "level_text": "AutodiffAbs: every reached node with operands is evaluated exactly once with the complete adjoint RefAdj and after all its in-pass consumers; TLC checks EvalOnce / EvalComplete / EvalAll on AutodiffImpl for all graphs within the bound and, under weak fairness, that every started pass finishes (PassesFinish), and the trace specification checks the log of derivative-closure invocations (node, received adjoint) of graphs built only from user operations on the real crate: same set, no repetition, each adjoint complete, consumers first; self-product chains to depth 60 (2^60 paths) under an invocation budget",
        "level_note": ENGINE_NOTE + "; built-in operations' closures are not observable without hooks and are covered through their results (C01)",
        "technique": "TLC model checking (EvalOnce/EvalComplete/EvalAll) + TLC trace validation of logged derivative invocations on the real crate",
        "mc": lambda tier: [mc("MC_Engine_custom"), mc("MC_Engine_live")],
        "families": lambda tier, seed: [
            {"name": "user_op_graphs", "cases": FE.c11_cases(tier, seed), "mask": M_EVAL,
             "what": "self-product and self-sum chains of user operations up to depth 60, random DAGs of cadd/cmul/csq/cfma with fan-out, diamonds, mixed tracking, second passes",
             "require": {"evals": 800}},
            tlc_family("tlc_user_graphs", "GenEngine_custom", "C11", limit=1500 if tier == "quick" else 20000, seed=seed,
                       mask=M_EVAL, exhaustive=True, require={"evals": 300}),
        ],
        "rule": "a case = one graph of user operations with 1-2 passes; distinct by program hash",
    },
    "C12": {
        "level_text": "In the specification observables are functions of nodes, never of handles: HandleStutter (clone / drop / flag steps leave nodes and gradient slots unchanged) is checked by TLC on the exhaustively explored GenEngine behaviours; every random program is run on the real crate together with its variants (every operand replaced by a fresh clone that is dropped afterwards, passes started from a clone of the result, handles dropped right after their last use) and all variants are validated against the same specification bit for bit; gradients deposited or cleared through one clone are observed through the others",
        "level_note": ENGINE_NOTE,
        "technique": "TLC model checking (HandleStutter) + TLC trace validation of program variants on the real crate",
        "mc": lambda tier: [mc("GenEngine_mc", module="GenEngine")],
        "families": lambda tier, seed: [
            {"name": "variants", "cases": FE.c12_cases(tier, seed), "mask": M_GRAD | {"values", "dims", "unexpected-panic", "immutable"},
             "what": "random programs, each with two handle-transparent variants, plus gradient visibility through clones",
             "require": {"passes": 500}},
            {"name": "keep_flags", "cases": FE.keep_flag_cases(tier, seed), "mask": M_GRAD | {"tracked-flag"},
             "what": "flags set on a clone never change the original: every flag operation on a result and on its clone, passes from either handle",
             "require": {"passes": 300}},
            {"name": "variants_bitwise", "cases": FE.variant_groups(FE.random_cases(seed + 8, 400 if tier == "thorough" else 120, handles=False), None),
             "post": FE.relate_variants, "mask": {"variant-differs"},
             "what": "relation: every operation value and every final gradient of a variant must be bitwise identical (digest) to the base program's",
             "require": {"variants_compared": 100}},
            {"name": "variants_bitwise_real", "cases": FE.variant_groups(FR.real_program_cases(tier, seed + 4)[:150 if tier == "quick" else 600], None),
             "spec": "TraceReal", "real": True, "post": FE.relate_variants, "mask": {"variant-differs", "real-value", "grad-presence"},
             "what": "the same relation in the real domain (transcendental operations), where the specification gives no exact number: identical bit patterns between a program and its variants",
             "require": {"variants_compared": 100}},
        ],
        "rule": "a case = one program or one of its variants; distinct by program hash",
    },
    "C17": {
        "level_text": "TLC checks SeedLinear (RefAdj(2 s1 - 3 s2) = 2 RefAdj(s1) - 3 RefAdj(s2) for every node and live root) on every graph of the bound with broadcast leaves, the default seed is Ones by definition (SeedOf); on the real crate each program is run with s1, s2 and alpha*s1+beta*s2 (dyadic coefficients) and with no seed vs explicit ones on results up to 81 elements, every gradient compared bit for bit with the specification",
        "level_note": ENGINE_NOTE,
        "technique": "TLC model checking (SeedLinear) + TLC trace validation of seed triples on the real crate",
        "mc": lambda tier: [mc("GenEngine_seedmc" if tier == "quick" else "GenEngine_seedmc3", module="GenEngine")],
        "families": lambda tier, seed: [
            {"name": "seeds", "cases": FE.c17_cases(tier, seed), "mask": M_GRAD,
             "what": "omitted seed vs explicit ones on results of 1..81 elements; random programs each run with s1, s2, alpha*s1+beta*s2",
             "require": {"passes": 400}},
        ],
        "rule": "a case = one (program, seed) instance; distinct by program hash",
    },
    "C18": {
        "level_text": "Ownership in the specification: a buffer is referenced by live handles / views on it and by the operand lists of alive nodes only (gradient slots hold independent arrays, finished passes hold nothing - NoResidue is model-checked); the generator emits Vec::from(h) exactly in the states where the specification says h MUST be the sole owner (MustOwn), for every drop order within the bound, with and without stored gradients, and the trace specification requires the real crate to succeed there",
        "level_note": ENGINE_NOTE + "; memory is observed through Vec::from sole ownership (Rc::try_unwrap), not through an allocator",
        "technique": "TLC model checking (NoResidue) + spec-enabled Vec::from steps validated by the TLC trace specification on the real crate",
        "mc": lambda tier: [mc("MC_Engine_p1" if tier == "quick" else "MC_Engine_p2")],
        "families": lambda tier, seed: [
            tlc_family("tlc_ownership", "GenEngine_ownq" if tier == "quick" else "GenEngine_own", "C18", limit=3000 if tier == "quick" else 40000, seed=seed,
                       mask=M_OWN, exhaustive=True, require={"owned": 500}),
            tlc_family("tlc_ownership_sim", "GenEngine_hist", "C18b", simulate=(150 if tier == "quick" else 1500, 20), seed=seed + 2,
                       mask=M_OWN, require={"owned": 1000}),
            {"name": "ownership_real", "cases": FR.real_tracking_cases(tier, seed + 1), "spec": "TraceReal", "real": True, "mask": M_OWN,
             "what": "ln / exp / sigmoid / softmax / reciprocal / powf / division: after a pass with stored gradients and the drop of every result the operand is the sole owner of its buffer",
             "require": {"owned": 20}},
            {"name": "seed_alias_then_update", "cases": FE.seed_alias_update_cases(tier, seed), "mask": M_OWN,
             "what": "the seed is a clone or a reshaped view of a live array; after the gradients were consumed by an update or cleared and the results dropped, that array owns its buffer again",
             "require": {"owned": 60}},
            {"name": "nonfinite_loss", "cases": FR.real_nonfinite_loss_cases(tier, seed), "spec": "TraceReal", "real": True, "mask": M_OWN,
             "what": "evaluation loops in which one iteration's loss is infinite or NaN: after the model has moved on, that iteration's input and target own their buffers again",
             "require": {"owned": 20}},
            {"name": "training_loops", "cases": FM.c14_cases(tier, seed + 5), "mask": M_OWN,
             "what": "model loops: after the next forward the previous iteration's input and the clones of the old parameters must own their buffers again (nothing of the finished iteration is retained)",
             "require": {"owned": 100}},
        ],
        "rule": "a case = one history ending in ownership probes; distinct by program hash; non-trivial = at least one Vec::from where the specification demands sole ownership",
    },
    "C08": {
        "level_text": "Immutable is an action property of every model-checked specification (node values and operand lists never change; an update allocates a fresh node and re-points the handle); on the real crate every event of every family carries a digest of (dims, value bits) of EVERY live handle - clones, reshaped views, fetched gradients, old parameters, graph operands - and the trace specification requires it to equal the digest recorded when the handle was created, across passes, accumulations, updates and drops",
        "level_note": ENGINE_NOTE + "; the BLAS build (unsafe code in blas.rs) cannot be built offline and is out of scope",
        "technique": "TLC model checking (Immutable) + per-event digests of all live handles validated by the TLC trace specification",
        "mc": lambda tier: [mc("MC_Engine_p1"), mc("GenEngine_mc", module="GenEngine")],
        "families": lambda tier, seed: [
            {"name": "long_histories", "cases": FE.random_cases(seed + 11, 700 if tier == "quick" else 6000, nsteps=(10, 26), p_pass=0.25),
             "mask": M_IMM, "what": "long random histories keeping clones, views and fetched gradients alive across passes, clears and drops"},
            {"name": "seed_views", "cases": FE.seed_view_cases(tier, seed), "mask": M_IMM | {"grad-value"},
             "what": "seeds that are reshaped views of live arrays, reshaped views of fetched gradients and of the root, then repeated passes on the same root: storage shared with what the engine was handed or handed out is never written",
             "require": {"passes": 300}},
            {"name": "broadcast_updates", "cases": FE.c03_cases("quick", seed + 1), "mask": M_IMM,
             "what": "passes followed by optimizer updates while older handles of the parameters stay alive"},
            tlc_family("tlc_histories", "GenEngine_hist", "C08", simulate=(150 if tier == "quick" else 1500, 20), seed=seed + 4, mask=M_IMM),
            tlc_family("tlc_update_histories", "GenEngine_upd", "C08u", simulate=(60 if tier == "quick" else 600, 20), seed=seed + 5, mask=M_IMM),
        ],
        "rule": "a case = one history; every live handle's digest is compared at every step; distinct by program hash",
    },
    "C13": {
        "level_text": "AutodiffAbs!Update states the property (old - lr*g per parameter holding a gradient, same dims, tracked, slot emptied, others untouched, older handles intact); TLC checks UpdateExact on it and that the implementation-shaped update (flat concatenation, one fused multiply-add, drain skipping frozen parameters - as gd.rs is written) refines it for every parameter list of 1..2 (thorough 1..3) entries over 6 shapes, every subset holding a gradient, 5 learning rates, two updates in a row; the trace specification validates GradientDescent::update on the real crate for lists of 1..4 parameters with prime-valued data, gradients deposited through gradient_mut and through real passes, comparing every element, flag, slot and the digests of older handles; TLC-simulated histories of the specification itself (GenEngine with UpdateStep: updates of one or two arbitrary live handles - leaves, clones, results - interleaved with operations, passes, clears, flag changes, clones and drops) are replayed on the real crate and validated step by step",
        "level_note": ENGINE_NOTE,
        "technique": "TLC model checking (UpdateRefines, UpdateExact) + TLC trace validation of update histories on the real crate",
        "mc": lambda tier: [mc("MC_Optimizer_" + tier, module="MC_Optimizer")],
        "families": lambda tier, seed: [
            {"name": "updates", "cases": FM.c13_cases(tier, seed), "mask": M_UPD | M_GRAD | {"immutable"},
             "what": "parameter lists of 1..4 entries over 6 shapes, a subset holding gradients, learning rates {0, 1, 1/2, -2, 3/4}, two updates in a row, older clones kept alive; gradients from real passes with frozen parameters in between",
             "require": {"updates": 400}},
            tlc_family("tlc_update_histories", "GenEngine_upd", "C13", simulate=(60 if tier == "quick" else 600, 20), seed=seed + 6,
                       mask=M_UPD | M_GRAD | {"immutable", "tracked-flag"}, require={"updates": 300}),
            {"name": "model_updates", "cases": FM.model_update_cases(tier, seed), "mask": M_UPD | {"grad-presence", "tracked-flag"},
             "what": "Model::update over 1-2 dense layers: a new Model built over the same layers between backward and update, repeated updates and backward passes, frozen parameters - every parameter and slot after every update",
             "require": {"updates": 20}},
        ],
        "rule": "a case = one parameter list x gradient subset x learning rate (two rounds); distinct by program hash",
    },
    "C14": {
        "level_text": "MC_Model: TLC explores every batch sequence over 3 (thorough 5) iterations of the forward/backward/update loop of ModelAbs for three layer stacks and checks StepExact (each iteration equals one iteration from a FRESH state with the same parameter values, loss included), NoStaleGradient and PreviousReleased; the trace specification validates real Dense/Conv/Model/GradientDescent runs (1-2 dense layers with none/relu, a conv+dense stack, MSE, unbatched and batched inputs, changing batch sizes, model rebuilt between iterations) comparing the returned loss and every parameter after every iteration bit for bit, which carries the implementation's counters, pending sums, retained output and slots across iterations",
        "level_note": ENGINE_NOTE + "; exactness bounds the history length (cases that leave the exact domain are skipped from that point, counted as 'left'); sigmoid/softmax/cross-entropy runs are judged in the real domain",
        "technique": "TLC model checking (StepExact over iterations) + TLC trace validation of training loops on the real crate",
        "mc": lambda tier: [mc("MC_Model_" + tier, module="MC_Model"), mc("MC_Engine_p2q" if tier == "quick" else "MC_Engine_p2")],
        "families": lambda tier, seed: [
            {"name": "training_loops", "cases": FM.c14_cases(tier, seed),
             "mask": M_UPD | M_GRAD | {"loss", "values", "dims", "unexpected-panic", "into_vec-should-succeed"},
             "what": "dense stacks (sizes 1..2, none/relu) and conv+dense stacks trained for 1..3 iterations with dyadic learning rates on unbatched / batched inputs with changing batch sizes; parameters observed through a delegating Layer wrapper; ownership of the previous iteration's input and old parameters probed after the next forward",
             "require": {"updates": 100, "passes": 100, "owned": 100}},
            {"name": "training_loops_real", "cases": FR.real_model_cases(tier, seed) + FR.real_model_cases(tier, seed + 9, iters=(30, 50), n=3 if tier == "quick" else 12),
             "spec": "TraceReal", "real": True, "mask": {"real-value", "dims", "tracked-flag", "grad-presence", "unexpected-panic", "update-dims"},
             "what": "real domain: dense stacks with sigmoid / relu hidden layers, softmax + cross-entropy or mse, learning rate 0.1, 2..6 iterations and long runs of 30..50 iterations with changing batch sizes; every iteration is judged from the parameters observed before it (loss and every parameter, 16 ulp of the term magnitude)",
             "require": {"updates": 150, "real_checked": 3000}},
        ],
        "rule": "a case = one training run; distinct by program hash",
    },
    "C15": {
        "level_text": "ModelAbs writes the documented formulas (dense = activation(x W^T + b), conv layer = activation(conv + b) with one bias per filter, model forward = composition, mse = (target-output)^2/count, backward value = sum of the cost array) over TensorCore; the trace specification validates Layer::forward for vectors, single rows and batches (and a refused input), conv layers with strides and batches, the cost closures, Model::forward against the layer-by-layer composition and Model::backward's return value on the real crate, bit for bit; MC_Rules checks the mse derivative rule against dual numbers; TLC also checks (MC_Composite) that the operations the crate composes out of others - a-b, softmax, mse, cross-entropy, conv = expand_conv(matmul(unroll_blocks, reshape^T)), the layer bodies - equal the single-node definitions used here, forward value and chained gradient, and that the accumulating roll is the adjoint of unroll",
        "level_note": ENGINE_NOTE + "; sigmoid / softmax activations and cross-entropy are judged in the real domain",
        "technique": "TLA+ spec of the documented formulas as oracle + TLC trace validation of layers, costs and models of the real crate",
        "mc": lambda tier: [mc("MC_Model_" + tier, module="MC_Model"), mc("MC_Rules_quick", module="MC_Rules"),
                            mc("MC_Composite_" + tier, module="MC_Composite", workers=6)],
        "families": lambda tier, seed: [
            {"name": "layers_costs_models", "cases": FM.c15_cases(tier, seed),
             "mask": {"values", "dims", "loss", "expected-refusal", "unexpected-panic", "layer-parameter-dims", "equality", "tracked-flag"},
             "what": "dense layers 1..3 x 1..3 with none/relu on [n], [1,n], [B,n], [2,2,n] inputs and a refused size; conv layers over counts, depths, filter sizes, strides and batches; mse on 8 shapes; models of 1..3 layers compared with their layer-by-layer composition; Model::backward's value",
             "require": {"judged": 500, "refusals": 10}},
            {"name": "layers_costs_real", "cases": FR.real_layer_cases(tier, seed), "spec": "TraceReal", "real": True,
             "mask": {"real-value", "dims", "unexpected-panic", "tracked-flag"},
             "what": "real domain: dense layers with sigmoid / softmax / relu / no activation, conv layers with sigmoid / relu, cross-entropy = -target * ln(output) / leading dimension and mse on softmax outputs, with their sums",
             "require": {"real_checked": 1000}},
        ],
        "rule": "a case = one layer / cost / model configuration; distinct by program hash",
    },
    "C19": {
        "level_text": "The same specification judges the f32 build: the executor is rebuilt with --features f32 and the exact-domain families of C01-C07 are re-run bit for bit with the specification's magnitude guard lowered to 2^22 (every intermediate exactly representable in a 24-bit significand), so dims, tracking, refusals and values must be identical to what the f64 build is required to produce; the real-domain families are re-run with the terms evaluated in f64 and a tolerance of 16 single-precision ulps of the term magnitude; values whose terms leave the normal range of f32 are not judged",
        "level_note": TRACE_NOTE + "; 'agreeing with the double-precision reference' is decided against the specification's value (exact, or the f64 evaluation of the defining term), not against a second run of the library",
        "technique": "TLC trace validation of the f32 build against the same TLA+ specification (exact domain bit for bit, real domain through terms)",
        "mc": lambda tier: [mc("MC_Engine_p1")],
        "families": lambda tier, seed: [
            {"name": "f32_elementwise", "cases": random.Random(seed).sample(FS.c04_cases("quick", seed), 2500 if tier == "quick" else 9000), "f32": True,
             "what": "C04 family (broadcast pairs, refusals) on the f32 build", "require": {"judged": 1000, "refusals": 500}},
            {"name": "f32_shapes", "f32": True,
             "cases": random.Random(seed).sample(FS.c05_cases("quick", seed), 600) + random.Random(seed).sample(FS.c06_cases("quick", seed), 500)
                      + FS.c07_cases("quick", seed) + FS.c16_cases("quick", seed)[::3],
             "what": "C05 / C06 / C07 / C16 families on the f32 build", "require": {"judged": 2000}},
            {"name": "f32_gradients", "f32": True,
             "cases": random.Random(seed).sample(FE.c02_cases("quick", seed), 1200) + FE.random_cases(seed + 2, 500 if tier == "quick" else 4000) + FE.c03_cases("quick", seed)[::2],
             "what": "C02 / C01 / C03 families on the f32 build", "require": {"passes": 1000}},
            {"name": "f32_real", "f32": True, "spec": "TraceReal", "real": True,
             "cases": FR.real_op_cases(tier, seed, f32=True) + FR.real_program_cases(tier, seed, f32=True)
                      + FR.real_layer_cases(tier, seed, f32=True) + FR.real_model_cases(tier, seed, f32=True),
             "what": "real-domain families (transcendental operations, programs, layers, training loops) on the f32 build, tolerance 16 * 2^-23 * magnitude",
             "require": {"real_checked": 8000}},
        ],
        "rule": "a case = one program of the C01-C07 spaces run on the f32 build; distinct by program hash",
    },
}
