"""Per-property registry: which bounded models are checked and which scenario families are validated."""
import fam_shapes as FS

COMMON_ASSUMPTIONS = [
    "TLC / SANY and the CommunityModules Json reader are trusted",
    "the executor maps one program step to one public API call of corgi (no comparison logic inside)",
    "exact domain: inputs are dyadic rationals with small mantissas, so IEEE results are order-independent and must equal the specification bit for bit",
    "non-BLAS build only (the BLAS features cannot be built offline)",
]


def finding_key(pid, mismatch, steps):
    """identify a failing class by property, failing step, reason and a coarse input predicate"""
    st = [s for s in steps if s["i"] == mismatch["i"]]
    op = st[0]["op"] if st else mismatch["op"]
    return "%s/%s/%s" % (pid, op, mismatch["why"])


NOT_APPLICABLE = {}

TRACE_NOTE = ("bounded: exhaustive only within the stated constants, seeded random beyond; trusted: TLC/SANY, the Json module, "
              "the executor's step-to-API mapping, exact float<->dyadic conversion")

PROPERTIES = {
    "C04": {
        "level_text": "TLC evaluates the TLA+ definition of right-aligned broadcasting (TensorCore!EW, BOK, BDims) on every one of the 14400 ordered shape pairs of rank 1..4 / sizes 1..3 and on random larger pairs, and the trace specification requires the real crate's result (dims and every element, bit for bit) or its refusal to equal it",
        "level_note": TRACE_NOTE,
        "technique": "TLA+ spec as exhaustive case oracle + TLC trace validation of executions of the real crate",
        "families": lambda tier, seed: [
            {"name": "ew_pairs", "cases": FS.c04_cases(tier, seed), "exhaustive": True,
             "what": "all 14400 ordered shape pairs rank 1..4 sizes 1..3 (add on every pair; sub/mul/axpy/div on "
                     + ("every pair" if tier == "thorough" else "a seeded sample of 1500") + ") plus random pairs with sizes up to 6",
             "require": {"judged": 1000, "refusals": 1000}},
        ],
        "rule": "a case = one ordered pair of operand shapes with position-coded values and the listed element-wise operations; distinct by program hash; non-trivial = at least one operation admitted or refused by the broadcasting rule",
    },
}
