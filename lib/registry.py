"""Per-property registry: which bounded models are checked and which scenario families are validated."""
import fam_shapes as FS
import fam_engine as FE

COMMON_ASSUMPTIONS = [
    "TLC / SANY and the CommunityModules Json reader are trusted",
    "the executor maps one program step to one public API call of corgi (no comparison logic inside)",
    "exact domain: inputs are dyadic rationals with small mantissas, so IEEE results are order-independent and must equal the specification bit for bit",
    "non-BLAS build only (the BLAS features cannot be built offline)",
]


def finding_key(pid, mismatch, steps):
    """identify a failing class by property, failing step, reason and a coarse input predicate"""
    st = [s for s in steps if s["i"] == mismatch["i"]]
    op = st[0]["op"] if st else mismatch["op"]
    return "%s/%s/%s" % (pid, op, mismatch["why"])


NOT_APPLICABLE = {}

TRACE_NOTE = ("bounded: exhaustive only within the stated constants, seeded random beyond; trusted: TLC/SANY, the Json module, "
              "the executor's step-to-API mapping, exact float<->dyadic conversion")

PROPERTIES = {
    "C04": {
        "level_text": "TLC evaluates the TLA+ definition of right-aligned broadcasting (TensorCore!EW, BOK, BDims) on every one of the 14400 ordered shape pairs of rank 1..4 / sizes 1..3 and on random larger pairs, and the trace specification requires the real crate's result (dims and every element, bit for bit) or its refusal to equal it",
        "level_note": TRACE_NOTE,
        "technique": "TLA+ spec as exhaustive case oracle + TLC trace validation of executions of the real crate",
        "families": lambda tier, seed: [
            {"name": "ew_pairs", "cases": FS.c04_cases(tier, seed), "exhaustive": True,
             "what": "all 14400 ordered shape pairs rank 1..4 sizes 1..3 (add on every pair; sub/mul/axpy/div on "
                     + ("every pair" if tier == "thorough" else "a seeded sample of 1500") + ") plus random pairs with sizes up to 6",
             "require": {"judged": 1000, "refusals": 1000}},
        ],
        "rule": "a case = one ordered pair of operand shapes with position-coded values and the listed element-wise operations; distinct by program hash; non-trivial = at least one operation admitted or refused by the broadcasting rule",
    },
    "C16": {
        "level_text": "TLC evaluates the TLA+ definitions of construction (LeafOK, nested concatenation), row-major layout (Flatten/Unflat) and equality on all 120 shapes of rank 1..4 / sizes 1..3 - every in-range multi-index and flat index, zero / ragged / miscounted constructions, nesting depth 1..4 - and the trace specification requires the real crate's values, refusals and equality answers to equal them",
        "level_note": TRACE_NOTE,
        "technique": "TLA+ spec as exhaustive case oracle + TLC trace validation of executions of the real crate",
        "families": lambda tier, seed: [
            {"name": "construct_index_eq", "cases": FS.c16_cases(tier, seed), "exhaustive": True,
             "what": "all shapes rank<=4 sizes<=3: dims+values / zeros / flat / nested constructors, every index, refusals, equality across tracking state, graph and gradient",
             "require": {"judged": 3000, "refusals": 300, "owned": 20}},
        ],
        "rule": "a case = one shape with its constructions, all of its indices, or one equality scenario; distinct by program hash",
    },
    "C07": {
        "level_text": "TLC evaluates the TLA+ definitions of sum(k), sum_all, reshape (and its refusal) and the point-wise operations on all 120 shapes of rank 1..4 / sizes 1..3 with every k, every factorisation as reshape target and the listed scalar parameters; the trace specification requires the real crate's dims and values (bit for bit in the exact domain) to equal them; transcendental functions are judged through spec-generated symbolic definitions (real domain)",
        "level_note": TRACE_NOTE,
        "technique": "TLA+ spec as exhaustive case oracle + TLC trace validation of executions of the real crate",
        "families": lambda tier, seed: [
            {"name": "reduce_reshape_pointwise", "cases": FS.c07_cases(tier, seed), "exhaustive": True,
             "what": "all shapes rank<=4 sizes<=3 x sum(k) for every k, sum_all, reshape to every factorisation and to refused targets, neg/scale/powf(n)/reciprocal/relu on dyadic values",
             "require": {"judged": 3000, "refusals": 300}},
        ],
        "rule": "a case = one shape with all reductions and point-wise operations, or one shape with its reshape targets; distinct by program hash",
    },
    "C05": {
        "level_text": "TLC evaluates the TLA+ index-formula definition of the batched, optionally transposed matrix product with additive term (TensorCore!Matmul, MatmulShape) on an enumeration of (rows, inner, cols) in 1..3 x 4 flag pairs x 49 leading-dimension patterns x 7 additive-term forms, inner-dimension mismatches and the rank-1 forms; the trace specification requires the real crate's dims, every element (bit for bit) or refusal to equal it",
        "level_note": TRACE_NOTE + "; forms the property leaves undefined (two rank-1 operands with a flag, additive terms with leading dimensions) are never judged",
        "technique": "TLA+ spec as case oracle + TLC trace validation of executions of the real crate",
        "families": lambda tier, seed: [
            {"name": "matmul", "cases": FS.c05_cases(tier, seed),
             "what": "seeded sample of the 37044-point space sizes<=3 x flags x leading patterns x additive forms, all inner mismatches, rank-1 forms, random sizes up to 5",
             "require": {"judged": 1000, "refusals": 100}},
        ],
        "rule": "a case = one operand-shape / flag / additive-term combination with position-coded integer values; distinct by program hash",
    },
    "C06": {
        "level_text": "TLC evaluates the direct sliding-window definition of convolution (TensorCore!Conv, no im2col in the specification) over image sizes 1..5, depth 1..2, filter count 1..2, filters up to 3x3, both strides 1..3 independently and batch absent / 1 / 2 / 3 / [2,2]; the trace specification requires the real crate's dims and every element (bit for bit) to equal it",
        "level_note": TRACE_NOTE + "; filters larger than the image and zero strides are not defined by the property and never judged",
        "technique": "TLA+ spec as case oracle + TLC trace validation of executions of the real crate",
        "families": lambda tier, seed: [
            {"name": "conv", "cases": FS.c06_cases(tier, seed),
             "what": "seeded sample of the enumerated space (image<=5x5, depth<=2, count<=2, filter<=3x3, strides 1..3, five batch forms), depth mismatches, random larger images",
             "require": {"judged": 1000, "refusals": 50}},
        ],
        "rule": "a case = one image/filter/stride/batch combination with integer values; distinct by program hash",
    },
    "C02": {
        "level_text": "TensorCore!Vjp defines the transpose-Jacobian of every operation from its forward definition (LinVjp: <seed, F(e_j)> on basis vectors for every operation linear in the differentiated operand; a table of scalar partials for the point-wise rest); TLC evaluates it for each operation x parameterisation x broadcast pattern x tracked subset with non-uniform (prime) seeds and the trace specification requires the gradients the real crate deposits to equal it bit for bit",
        "level_note": TRACE_NOTE + "; transcendental operations (ln, exp, sigmoid, softmax, non-integer powf, general division) are judged in the real domain through spec-generated symbolic definitions",
        "technique": "TLA+ spec (definition-derived VJPs) as case oracle + TLC trace validation of executions of the real crate",
        "families": lambda tier, seed: [
            {"name": "single_op_vjp", "cases": FE.c02_cases(tier, seed),
             "what": "one operation per case, backward with a prime-valued seed, every deposited gradient compared: element-wise ops over broadcast pairs and tracked subsets, neg/scale/powf(-2..4)/reciprocal/relu/sum(k)/reshape, matmul (flags, additive term, leading patterns, rank-1 forms), conv (strides 1..3, batches), user operations",
             "require": {"judged": 1500, "passes": 1500}},
        ],
        "rule": "a case = one operation with one parameterisation, operand shapes, tracked subset and seed; distinct by program hash",
    },
}
