"""Scenario families for the optimizer, layers, costs and the model loop (C13, C14, C15, C18)."""
import itertools
import random
from fractions import Fraction as F

from progs import *
from fam_engine import seed_tensor, grads_of, subsets

PSHAPES = [[1], [2], [3], [1, 2], [2, 2], [2, 1, 2]]
RATES = [0, 1, F(1, 2), -2, F(3, 4)]


def c13_cases(tier, seed):
    rnd = random.Random(seed)
    cases = []
    combos = []
    for n in (1, 2, 3, 4):
        for shp in itertools.product(PSHAPES, repeat=n):
            combos.append(list(shp))
    pick = combos if tier == "thorough" else rnd.sample(combos, 260)
    for shp in pick:
        n = len(shp)
        for has in ([rnd.choice(subsets(n) + [[False] * n])] if tier != "thorough" else [rnd.choice(subsets(n) + [[False] * n]) for _ in range(2)]):
            lr = rnd.choice(RATES)
            steps = [RESET]
            for k, d in enumerate(shp):
                steps.append(leaf(1 + k, d, [PRIMES[(3 * k + i) % 40] * (-1 if i % 3 == 2 else 1) for i in range(prod(d))], trk=k % 2 == 0))
                steps.append({"op": "clone", "args": [1 + k], "res": 21 + k})
            for rnd_round in range(2):
                hs = has if rnd_round == 0 else [rnd.random() < 0.6 for _ in range(n)]
                for k, d in enumerate(shp):
                    if hs[k]:
                        g = [F(PRIMES[(5 * k + i + 7 * rnd_round) % 40] * (1 if i % 2 else -1), 2) for i in range(prod(d))]
                        steps.append({"op": "setgrad", "args": [1 + k], "g": tensor(d, g)})
                steps.append({"op": "update", "args": list(range(1, n + 1)), "lr": sc(lr)})
                steps += [{"op": "grad", "args": [1 + k], "res": 60 + 10 * rnd_round + k} for k in range(n)]
            cases.append(steps)
    # long parameter lists: totals above 64 / 128 elements, not multiples of the usual block sizes
    for shp in ([[70]], [[100]], [[64]], [[128]], [[8, 8], [8]], [[5, 13], [3], [2, 2]], [[33], [31], [1]], [[9, 9], [9, 9]],
                [[16, 4], [4], [4, 2], [2]], [[130]], [[3, 7, 5]],
                # totals of 512 elements and more that are not multiples of the usual block sizes (a blocked step with a tail)
                [[513]], [[260, 2], [3]], [[100, 5], [13]], [[32, 16], [16], [16, 1], [1]], [[1030]], [[511], [2]], [[17, 31]]):
        for has in ([True] * len(shp), [k % 2 == 0 for k in range(len(shp))]):
            steps = [RESET]
            for k, d in enumerate(shp):
                steps.append(leaf(1 + k, d, [((3 * k + i) % 17) - 8 for i in range(prod(d))], trk=True))
            for k, d in enumerate(shp):
                if has[k]:
                    steps.append({"op": "setgrad", "args": [1 + k], "g": tensor(d, [F(((5 * k + i) % 13) - 6, 2) for i in range(prod(d))])})
            steps.append({"op": "update", "args": list(range(1, len(shp) + 1)), "lr": sc(rnd.choice([F(1, 2), F(3, 4), -2]))})
            cases.append(steps)
    # a clone of a parameter later in the same list (it sees the slot already emptied: untouched), and gradients
    # whose dims differ from the parameter's but have the same element count
    for d, gd in (([2, 2], [4]), ([3], [1, 3]), ([2, 1, 2], [2, 2]), ([4], [2, 2])):
        n = prod(d)
        steps = [RESET, leaf(1, d, [k + 1 for k in range(n)], trk=True), leaf(2, [2], [5, -5], trk=True),
                 {"op": "clone", "args": [1], "res": 3},
                 {"op": "setgrad", "args": [1], "g": tensor(gd, [F(k - 1, 2) for k in range(n)])},
                 {"op": "setgrad", "args": [2], "g": tensor([2], [1, 2])},
                 {"op": "update", "args": [1, 2, 3], "lr": sc(F(1, 2))},
                 {"op": "update", "args": [3, 2, 1], "lr": sc(F(1, 2))}]
        cases.append(steps)
    # gradients that are entirely zero: the parameter is still replaced by a tracked array and its slot emptied
    for d in ([2], [2, 2]):
        steps = [RESET, leaf(1, d, [k + 1 for k in range(prod(d))], trk=False), leaf(2, [3], [1, 2, 3], trk=True),
                 {"op": "setgrad", "args": [1], "g": tensor(d, [0] * prod(d))}, {"op": "update", "args": [1, 2], "lr": sc(F(1, 2))},
                 {"op": "update", "args": [1, 2], "lr": sc(4096)}]
        cases.append(steps)
    # gradients deposited by real passes; frozen parameters in between
    for _ in range(400 if tier == "thorough" else 60):
        n = rnd.randint(2, 4)
        shp = [rnd.choice(PSHAPES[:5]) for _ in range(n)]
        steps = [RESET]
        for k, d in enumerate(shp):
            steps.append(leaf(1 + k, d, [rnd.randint(-4, 4) for _ in range(prod(d))], trk=True))
        used = [k for k in range(n) if rnd.random() < 0.6] or [0]
        h = 30
        for k in used:
            steps.append(leaf(h, shp[k], [rnd.randint(-3, 3) for _ in range(prod(shp[k]))]))
            steps.append(op("mul", [1 + k, h], h + 1))
            steps.append(backward(h + 1, seed_tensor(shp[k], k0=k)))
            h += 2
        steps.append({"op": "update", "args": list(range(1, n + 1)), "lr": sc(rnd.choice(RATES))})
        # a second pass through the new parameters and a second update
        k = rnd.choice(used)
        steps.append(op("mul", [1 + k, 1 + k], h))
        steps.append(backward(h))
        steps.append({"op": "update", "args": list(range(1, n + 1)), "lr": sc(F(1, 2))})
        cases.append(steps)
    return cases


# ---------------------------------------------------------------------------------------------
INIT = [F(1, 2), F(-1, 4), 1, F(-1, 2), F(1, 4), F(3, 4), -1, F(1, 8), F(-3, 8), F(1, 2), 2, F(-3, 4)]


def dense_new(layer, nin, nout, act, ph, rot=0):
    return {"op": "dense_new", "layer": layer, "in": nin, "out": nout, "act": act, "ph": ph,
            "init": tensor([len(INIT)], INIT[rot:] + INIT[:rot])}


def conv_new(layer, fd, sr, sc_, act, ph, rot=0):
    return {"op": "conv_new", "layer": layer, "fd": fd, "sr": sr, "sc": sc_, "act": act, "ph": ph,
            "init": tensor([len(INIT)], INIT[rot:] + INIT[:rot])}


def small_vals(rnd, n):
    return [rnd.choice([-2, -1, 1, 2, F(1, 2), F(-1, 2), 0, 3]) for _ in range(n)]


def training_case(rnd, layers, in_dims, out_dims, iters, lr, cost="mse", batches=None, ownership=True, rebuild=False, freeze=None,
                  twists=()):
    """layers: list of step dicts (dense_new / conv_new) with layer ids; runs forward/backward/update"""
    steps = [RESET] + layers
    lids = [l["layer"] for l in layers]
    params = [p for l in layers for p in l["ph"]]
    steps.append({"op": "model_new", "layers": lids, "lr": sc(lr), "cost": cost})
    h = 200
    prev = None
    for it in range(iters):
        b = batches[it % len(batches)] if batches else []
        x, y, out = h, h + 1, h + 2
        steps.append(leaf(x, b + in_dims, small_vals(rnd, prod(b + in_dims))))
        steps.append(leaf(y, b + out_dims, small_vals(rnd, prod(b + out_dims))))
        olds = []
        if ownership:
            for k, p in enumerate(params):
                steps.append({"op": "clone", "args": [p], "res": h + 10 + k})
                olds.append(h + 10 + k)
        if freeze is not None and it == freeze[1]:
            steps.append({"op": "stop", "args": [freeze[0]]})        # a frozen parameter: no gradient, no update
        if freeze is not None and it == freeze[1] + 1:
            steps.append({"op": "start", "args": [freeze[0]]})
        if "double_forward" in twists and it % 2 == 1:
            # forward called twice before one backward: the SECOND output is the one that is differentiated
            steps.append(leaf(h + 30, b + in_dims, small_vals(rnd, prod(b + in_dims))))
            steps.append({"op": "m_forward", "args": [h + 30], "res": h + 31})
            steps.append({"op": "drop", "args": [h + 31]})
            twice = True
        else:
            twice = False
        steps.append({"op": "m_forward", "args": [x], "res": out})
        if twice:
            # the model moved on to another forward: the first input is released (no update needed for that)
            steps.append({"op": "into_vec", "args": [h + 30]})
        if prev is not None and ownership:
            # the model moved on: nothing of the previous iteration may still hold its input or old parameters
            steps.append({"op": "into_vec", "args": [prev[0]]})
            for o in prev[1]:
                steps.append({"op": "into_vec", "args": [o]})
        steps.append({"op": "m_backward", "args": [y]})
        if "double_backward" in twists and it % 2 == 0:
            steps.append({"op": "m_backward", "args": [y]})       # gradients accumulate: the update uses the sum
        if "rebuild_before_update" in twists:
            # a new Model over the same layers between backward and update (the gradients live in the layers)
            steps.append({"op": "model_drop"})
            steps.append({"op": "model_new", "layers": lids, "lr": sc(lr), "cost": cost})
        steps.append({"op": "m_update"})
        if "double_update" in twists:
            steps.append({"op": "m_update"})                      # nothing holds a gradient any more: no change
        steps.append({"op": "drop", "args": [out]})
        steps.append({"op": "drop", "args": [y]})
        if rebuild:
            steps.append({"op": "model_drop"})
            steps.append({"op": "model_new", "layers": lids, "lr": sc(lr), "cost": cost})
        prev = (x, olds)
        h += 40
    return steps


def c14_cases(tier, seed):
    rnd = random.Random(seed)
    cases = []
    n = 500 if tier == "thorough" else 90
    for _ in range(n):
        nl = rnd.choice([1, 1, 2, 3])
        sizes = [rnd.choice([1, 2]) for _ in range(nl + 1)]
        twists = [t for t in ("double_forward", "double_backward", "double_update", "rebuild_before_update") if rnd.random() < 0.2]
        layers = []
        for k in range(nl):
            layers.append(dense_new(k + 1, sizes[k], sizes[k + 1], rnd.choice(["none", "relu"]), [100 + 2 * k, 101 + 2 * k], rot=rnd.randrange(12)))
        # element count of the output (batch x out) must be a power of two for the exact MSE
        batches = rnd.choice([[[]], [[1]], [[2]], [[2], [1], []], [[4], [2]]])
        batches = [b for b in batches if prod(b + [sizes[-1]]) in (1, 2, 4, 8)] or [[]]
        params = [p for l in layers for p in l["ph"]]
        freeze = (rnd.choice(params), rnd.choice([0, 1])) if rnd.random() < 0.4 else None
        cases.append(training_case(rnd, layers, [sizes[0]], [sizes[-1]], rnd.choice([1, 2, 3]), rnd.choice([F(1, 2), 1, F(1, 4)]),
                                   batches=batches, rebuild=rnd.random() < 0.25, freeze=freeze, twists=twists))
    # inference loops (forward only), models whose parameters are all frozen, and the empty model: the output is
    # untracked, nothing receives a gradient, inputs are released as soon as the model moves on
    for _ in range(40 if tier == "thorough" else 10):
        nin, nout = rnd.choice([1, 2]), rnd.choice([1, 2])
        kind = rnd.choice(["inference", "frozen", "empty"])
        layers = [] if kind == "empty" else [dense_new(1, nin, nout, rnd.choice(["none", "relu"]), [100, 101], rot=rnd.randrange(12))]
        steps = [RESET] + layers + [{"op": "model_new", "layers": [l["layer"] for l in layers], "lr": sc(F(1, 2)), "cost": "mse"}]
        if kind == "frozen":
            steps += [{"op": "stop", "args": [100]}, {"op": "stop", "args": [101]}]
        h = 200
        for it in range(rnd.choice([2, 3, 5])):
            b = rnd.choice([[], [2]])
            steps.append(leaf(h, b + [nin], small_vals(rnd, prod(b + [nin]))))
            steps.append({"op": "m_forward", "args": [h], "res": h + 1})
            if it > 0:
                steps.append({"op": "drop", "args": [h - 9]})
                steps.append({"op": "into_vec", "args": [h - 10]})
            if kind != "inference" and prod(b + [nin if kind == "empty" else nout]) in (1, 2, 4):
                steps.append(leaf(h + 2, b + [nin if kind == "empty" else nout], small_vals(rnd, prod(b + [nin if kind == "empty" else nout]))))
                steps.append({"op": "m_backward", "args": [h + 2]})
                steps.append({"op": "m_update"})
                steps.append({"op": "grad", "args": [h + 1], "res": h + 3})
            h += 10
        cases.append(steps)
    # update without any gradient (never ran backward), update with all-zero gradients, large cost arrays
    for _ in range(8 if tier == "thorough" else 3):
        layers = [dense_new(1, 2, 2, "none", [100, 101], rot=rnd.randrange(12))]
        steps = [RESET] + layers + [{"op": "model_new", "layers": [1], "lr": sc(F(1, 2)), "cost": "mse"}, {"op": "m_update"},
                                    leaf(10, [2, 2], [0, 0, 0, 0]), {"op": "m_forward", "args": [10], "res": 11},
                                    {"op": "clone", "args": [11], "res": 12}, {"op": "m_backward", "args": [12]}, {"op": "m_update"},
                                    leaf(20, [16, 2], small_vals(rnd, 32)), {"op": "m_forward", "args": [20], "res": 21},
                                    leaf(22, [16, 2], small_vals(rnd, 32)), {"op": "m_backward", "args": [22]}, {"op": "m_update"}]
        cases.append(steps)
    # conv + dense stack
    for _ in range(60 if tier == "thorough" else 12):
        cnt, fr, fc = rnd.choice([1, 2]), rnd.choice([1, 2]), rnd.choice([1, 2])
        ir, ic = rnd.choice([2, 3]), rnd.choice([2, 3])
        sr, sc_ = rnd.choice([1, 2]), 1
        orr, occ = (ir - fr) // sr + 1, (ic - fc) // sc_ + 1
        nout = rnd.choice([1, 2])
        b = rnd.choice([[], [2]])
        if prod(b + [cnt, orr, nout]) not in (1, 2, 4, 8, 16):
            continue
        layers = [conv_new(1, [cnt, 1, fr, fc], sr, sc_, rnd.choice(["none", "relu"]), [100, 101]),
                  dense_new(2, occ, nout, "none", [102, 103], rot=3)]
        cases.append(training_case(rnd, layers, [1, ir, ic], [cnt, orr, nout], rnd.choice([1, 2]), F(1, 2), batches=[b]))
    # conv followed by conv with overlapping windows (stride 1): the second layer's image gradient feeds the first
    for _ in range(20 if tier == "thorough" else 5):
        c1, c2 = rnd.choice([1, 2]), rnd.choice([1, 2])
        b = rnd.choice([[], [2]])
        if prod(b + [c2, 2, 2]) not in (4, 8, 16):
            continue
        layers = [conv_new(1, [c1, 1, 2, 2], 1, 1, rnd.choice(["none", "relu"]), [100, 101], rot=rnd.randrange(12)),
                  conv_new(2, [c2, c1, 2, 2], 1, 1, "none", [102, 103], rot=rnd.randrange(12))]
        cases.append(training_case(rnd, layers, [1, 4, 4], [c2, 2, 2], rnd.choice([1, 2]), F(1, 4), batches=[b]))
    return cases


def model_update_cases(tier, seed):
    """Model::update = the optimizer's update over all layers' parameters, whatever the model object went through:
    models rebuilt over the same layers between backward and update, repeated updates, frozen parameters."""
    rnd = random.Random(seed)
    cases = []
    for _ in range(80 if tier == "thorough" else 24):
        nl = rnd.choice([1, 2])
        sizes = [rnd.choice([1, 2]) for _ in range(nl + 1)]
        layers = [dense_new(k + 1, sizes[k], sizes[k + 1], rnd.choice(["none", "relu"]), [100 + 2 * k, 101 + 2 * k], rot=rnd.randrange(12))
                  for k in range(nl)]
        params = [p for l in layers for p in l["ph"]]
        tw = ["rebuild_before_update"] if rnd.random() < 0.7 else []
        tw += [t for t in ("double_update", "double_backward") if rnd.random() < 0.3]
        freeze = (rnd.choice(params), rnd.choice([0, 1])) if rnd.random() < 0.4 else None
        cases.append(training_case(rnd, layers, [sizes[0]], [sizes[-1]], rnd.choice([1, 2]), rnd.choice([F(1, 2), 1, F(1, 4)]),
                                   batches=[[]] if sizes[-1] in (1, 2) else [[2]], freeze=freeze, twists=tw, ownership=False))
    return cases


def c15_cases(tier, seed):
    rnd = random.Random(seed)
    cases = []
    # dense layers: activation(x W^T + b) for a vector, one row, a batch
    for nin in (1, 2, 3):
        for nout in (1, 2, 3):
            for act in ("none", "relu"):
                steps = [RESET, dense_new(1, nin, nout, act, [100, 101], rot=(nin * 3 + nout) % 12)]
                h = 10
                for b in ([], [1], [2], [3], [2, 2]):
                    steps.append(leaf(h, b + [nin], small_vals(rnd, prod(b + [nin])), trk=rnd.random() < 0.5))
                    steps.append({"op": "layer_forward", "layer": 1, "args": [h], "res": h + 1})
                    h += 2
                steps.append(leaf(h, [nin + 1], small_vals(rnd, nin + 1)))
                steps.append({"op": "layer_forward", "layer": 1, "args": [h], "res": h + 1})      # refused
                cases.append(steps)
    # conv layers: activation(conv(x, filters, stride) + b), one bias per filter
    for cnt in (1, 2):
        for depth in (1, 2):
            for (fr, fc) in ((1, 1), (2, 2), (1, 2)):
                for (sr, sc_) in ((1, 1), (2, 1), (2, 2)):
                    for act in ("none", "relu"):
                        steps = [RESET, conv_new(1, [cnt, depth, fr, fc], sr, sc_, act, [100, 101], rot=(cnt + depth + fr) % 12)]
                        h = 10
                        for b in ([], [1], [2]):
                            d = b + [depth, rnd.choice([2, 3, 4]), rnd.choice([2, 3])]
                            steps.append(leaf(h, d, small_vals(rnd, prod(d))))
                            steps.append({"op": "layer_forward", "layer": 1, "args": [h], "res": h + 1})
                            h += 2
                        cases.append(steps)
    # costs: mse = (target - output)^2 / count; the model's backward returns the sum of the cost array
    for d in ([1], [2], [4], [2, 2], [1, 4], [2, 1, 2], [8], [2, 4]):
        n = prod(d)
        for trk in ((True, False), (False, False), (True, True)):
            steps = [RESET, leaf(1, d, small_vals(rnd, n), trk=trk[0]), leaf(2, d, small_vals(rnd, n), trk=trk[1]),
                     {"op": "cost", "kind": "mse", "args": [1, 2], "res": 3}, {"op": "sum_all", "args": [3]}]
            if any(trk):
                steps.append(backward(3))
            cases.append(steps)
    # targets with fewer dimensions than the output (a vector against a one-row batch)
    for n in (1, 2, 4):
        for trk in ((True, False), (True, True)):
            steps = [RESET, leaf(1, [1, n], small_vals(rnd, n), trk=trk[0]), leaf(2, [n], small_vals(rnd, n), trk=trk[1]),
                     {"op": "cost", "kind": "mse", "args": [1, 2], "res": 3}, {"op": "sum_all", "args": [3]}, backward(3)]
            cases.append(steps)
    # ONE cost closure applied to outputs of different sizes in turn (a smaller last batch): the normalisation is
    # by the CURRENT output's element count
    for order in ([[2], [4], [2, 4], [1]], [[8], [2, 2], [1, 2], [4, 4]], [[1], [2, 1], [4]]):
        steps = [RESET]
        h = 1
        for d in order:
            steps += [leaf(h, d, small_vals(rnd, prod(d)), trk=True), leaf(h + 1, d, small_vals(rnd, prod(d))),
                      {"op": "cost", "kind": "mse", "args": [h, h + 1], "res": h + 2}, {"op": "sum_all", "args": [h + 2]}, backward(h + 2)]
            h += 3
        cases.append(steps)
    # targets with MORE dimensions than the output: the cost array has a higher rank, its sum is over all of it
    for n in (1, 2):
        steps = [RESET, leaf(1, [2, n], small_vals(rnd, 2 * n), trk=True), leaf(2, [2, 2, n], small_vals(rnd, 4 * n)),
                 {"op": "cost", "kind": "mse", "args": [1, 2], "res": 3}, {"op": "sum_all", "args": [3]}, backward(3)]
        cases.append(steps)
        layers = [dense_new(1, 2, n, "none", [100, 101], rot=n)]
        steps = [RESET] + layers + [{"op": "model_new", "layers": [1], "lr": sc(F(1, 2)), "cost": "mse"},
                                    leaf(10, [2, 2], small_vals(rnd, 4)), {"op": "m_forward", "args": [10], "res": 11},
                                    leaf(12, [2, 2, n], small_vals(rnd, 4 * n)), {"op": "m_backward", "args": [12]}, {"op": "m_update"}]
        cases.append(steps)
    # model forward = composition of its layers in order; backward value
    for _ in range(200 if tier == "thorough" else 40):
        nl = rnd.choice([1, 2, 3])
        sizes = [rnd.choice([1, 2, 3]) for _ in range(nl)] + [rnd.choice([1, 2, 4])]
        layers = [dense_new(k + 1, sizes[k], sizes[k + 1], rnd.choice(["none", "relu"]), [100 + 2 * k, 101 + 2 * k], rot=rnd.randrange(12))
                  for k in range(nl)]
        b = rnd.choice([[], [1], [2]])
        if prod(b + [sizes[-1]]) not in (1, 2, 4, 8):
            b = []
        steps = [RESET] + layers + [{"op": "model_new", "layers": [l["layer"] for l in layers], "lr": sc(F(1, 2)), "cost": "mse"}]
        steps.append(leaf(10, b + [sizes[0]], small_vals(rnd, prod(b + [sizes[0]]))))
        steps.append({"op": "m_forward", "args": [10], "res": 11})
        # the same composition layer by layer
        cur = 10
        for k, l in enumerate(layers):
            steps.append({"op": "layer_forward", "layer": l["layer"], "args": [cur], "res": 20 + k})
            cur = 20 + k
        steps.append({"op": "eq", "args": [11, cur]})
        steps.append(leaf(12, b + [sizes[-1]], small_vals(rnd, prod(b + [sizes[-1]]))))
        steps.append({"op": "m_backward", "args": [12]})
        cases.append(steps)
    return cases
