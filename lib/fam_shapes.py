"""Scenario families for the pure-function properties (C04 - C07, C16): spec-enumerable shape spaces."""
import random
from fractions import Fraction as F

from progs import *


def ew_case(da, db, rnd=None, ops=("add", "sub", "mul", "axpy", "div"), trk=(False, False)):
    """one case: two position-coded operands, every element-wise operation on them"""
    na, nb = prod(da), prod(db)
    steps = [RESET,
             leaf(1, da, [k + 1 for k in range(na)], trk=trk[0]),
             leaf(2, db, [100 + k + 1 for k in range(nb)], trk=trk[1])]
    h = 10
    for o in ops:
        if o == "div":
            # divisors are +-2^k so that the quotient is an exact dyadic
            steps.append(leaf(3, db, [(1 if k % 3 else -1) * F(2) ** ((k % 5) - 2) for k in range(nb)]))
            steps.append(op("div", [1, 3], h))
        elif o == "axpy":
            steps.append(op("axpy", [1, 2], h, alpha=sc(F(-3, 2))))
        else:
            steps.append(op(o, [1, 2], h))
        h += 1
    return steps


def c04_cases(tier, seed):
    rnd = random.Random(seed)
    sh = shapes(4, 3)
    pairs = [(a, b) for a in sh for b in sh]          # all 14 400 ordered pairs
    cases = []
    if tier == "thorough":
        for a, b in pairs:
            cases.append(ew_case(a, b))
    else:
        # every pair with `add`; the other operations on a seeded sample of pairs
        sample = set(rnd.sample(range(len(pairs)), 1500))
        for k, (a, b) in enumerate(pairs):
            cases.append(ew_case(a, b, ops=("add", "sub", "mul", "axpy", "div") if k in sample else ("add",)))
    # beyond the exhaustive bound: random pairs with sizes up to 6
    big = []
    n = 4000 if tier == "thorough" else 700
    while len(big) < n:
        r1, r2 = rnd.randint(1, 4), rnd.randint(1, 4)
        a = [rnd.choice([1, 1, 2, 3, 4, 5, 6, 7, 8]) for _ in range(r1)]
        if rnd.random() < 0.7:
            # derive a mostly-compatible partner
            b = [x if rnd.random() < 0.6 else rnd.choice([1, x, rnd.randint(1, 8)]) for x in a][-r2:]
        else:
            b = [rnd.choice([1, 2, 3, 4, 5, 6, 7, 8]) for _ in range(r2)]
        if prod(a) * prod(b) > 90000 or (bdims(a, b) and prod(bdims(a, b)) > 600):
            continue
        big.append(ew_case(a, b, ops=("add", "mul", "div")))
    # values and coefficients at which a shortcut is tempting (0, 1, -1; operands that are all zeros / all ones),
    # under broadcasting in both directions: the result still has the broadcast dimensions
    sh3 = shapes(3, 3)
    bp = [(a, b) for a in sh3 for b in sh3 if a != b and bdims(a, b)]
    for a, b in (bp if tier == "thorough" else rnd.sample(bp, 150)):
        na, nb = prod(a), prod(b)
        steps = [RESET, leaf(1, a, [k + 1 for k in range(na)]), leaf(2, b, [100 + k for k in range(nb)]),
                 leaf(3, b, [0] * nb), leaf(4, b, [1] * nb), leaf(5, a, [0] * na), leaf(6, a, [1] * na)]
        h = 10
        for al in (0, 1, -1):
            steps.append(op("axpy", [1, 2], h, alpha=sc(al))); h += 1
            steps.append(op("axpy", [2, 1], h, alpha=sc(al))); h += 1
        for x, y in ((1, 3), (1, 4), (3, 1), (4, 1), (5, 2), (6, 2), (2, 5), (2, 6), (3, 5), (4, 6)):
            for o in ("add", "mul", "sub"):
                steps.append(op(o, [x, y], h)); h += 1
        steps.append(op("div", [1, 4], h)); h += 1
        steps.append(op("div", [5, 4], h)); h += 1
        big.append(steps)
    # a dimension around a block size, against equal / unit / lower-rank partners
    for B in (BLOCKY if tier == "thorough" else rnd.sample(BLOCKY, 4) + [33]):
        for a, b in (([B], [B]), ([B], [1]), ([2, B], [B]), ([2, B], [2, 1]), ([B, 2], [B, 1]), ([B, 2], [2]), ([1, B], [3, 1]),
                     ([2, 1, B], [3, 1]), ([B], [2, 1])):
            big.append(ew_case(a, b, ops=("add", "mul", "axpy")))
            big.append(ew_case(b, a, ops=("sub", "div")))
    return cases + big


# ---------------------------------------------------------------------------------------------
# C16 construction, layout, indexing, equality
def multi_indices(d):
    import itertools
    return [list(t) for t in itertools.product(*[range(x) for x in d])]


def c16_cases(tier, seed):
    rnd = random.Random(seed)
    cases = []
    for d in shapes(4, 3):
        n = prod(d)
        vals = [(k + 1) * (1 if k % 2 else -1) for k in range(n)]
        steps = [RESET, leaf(1, d, vals), leaf(2, d, [0] * n, ctor="zeros")]
        steps.append({"op": "eq", "args": [1, 2]})
        for k, idx in enumerate(multi_indices(d)):
            steps.append({"op": "index", "args": [1], "idx": idx})
            steps.append({"op": "index", "args": [1], "flat": k})
        cases.append(steps)
        # refusals: a zero dimension, a wrong element count
        for z in range(len(d)):
            dz = list(d)
            dz[z] = 0
            cases.append([RESET, leaf(1, dz, [1] * prod(dz)), leaf(2, dz, [], ctor="zeros")])
        cases.append([RESET, leaf(1, d, vals + [7]), leaf(2, d, vals[:-1])])
    # flat vectors
    for n in range(0, 8):
        cases.append([RESET, leaf(1, [n], [F(k, 2) for k in range(n)], ctor="flat")])
    # nested construction (arr! of arrays), moved or cloned, depth up to 4, ragged shapes refused
    for d in shapes(3, 3):
        for k in (1, 2, 3):
            n = prod(d)
            steps = [RESET]
            for j in range(k):
                steps.append(leaf(1 + j, d, [100 * j + i for i in range(n)], trk=(j == 1)))
            mv = (k + len(d)) % 2 == 0
            steps.append({"op": "nested", "args": list(range(1, k + 1)), "res": 10, "mv": mv})
            steps.append({"op": "index", "args": [10], "idx": [k - 1] + [x - 1 for x in d]})
            # nest once more (depth + 1) from clones of the result
            steps.append({"op": "nested", "args": [10, 10], "res": 11, "mv": False})
            steps.append({"op": "nested", "args": [11], "res": 12, "mv": True})
            steps.append({"op": "index", "args": [12], "flat": 2 * k * n - 1})
            if not mv:
                # the operands keep their values and are still sole owners of their buffers
                steps.append({"op": "into_vec", "args": [1]})
            cases.append(steps)
    for a in shapes(2, 3):
        for b in shapes(2, 3):
            if a != b:
                cases.append([RESET, leaf(1, a, list(range(prod(a)))), leaf(2, b, list(range(prod(b)))),
                              {"op": "nested", "args": [1, 2], "res": 3, "mv": False}])
    # equality is dims + values, whatever the tracking state, graph or gradient
    for d in shapes(3, 3):
        n = prod(d)
        vals = [k - 2 for k in range(n)]
        steps = [RESET, leaf(1, d, vals), leaf(2, d, vals, trk=True),
                 {"op": "eq", "args": [1, 2]},
                 op("scale", [2], 3, c=sc(1)), {"op": "eq", "args": [1, 3]},
                 backward(3), {"op": "eq", "args": [1, 2]}, {"op": "eq", "args": [3, 2]},
                 op("neg", [2], 4), {"op": "eq", "args": [4, 2]},
                 op("reshape", [1], 5, d=[n]), {"op": "eq", "args": [5, 1]},
                 op("reshape", [1], 6, d=[1] + d), {"op": "eq", "args": [6, 1]},
                 leaf(7, d, vals[:-1] + [99]), {"op": "eq", "args": [7, 1]},
                 op("clone", [1], 8), {"op": "eq", "args": [8, 1]}]
        cases.append(steps)
    # approximate equality (approx::AbsDiffEq / RelativeEq): same dims and element-wise closeness
    for d in shapes(2, 3):
        n = prod(d)
        base = [F(k - 2, 2) for k in range(n)]
        for delta, eps, rel in ((0, F(1, 8), F(1, 8)), (F(1, 8), F(1, 8), 0), (F(1, 4), F(1, 8), F(1, 16)), (F(1, 4), F(1, 8), 1),
                                (F(1, 1024), 0, F(1, 256)), (F(-1, 4), F(1, 2), 0)):
            other = [v + (delta if k == n - 1 else 0) for k, v in enumerate(base)]
            steps = [RESET, leaf(1, d, base), leaf(2, d, other, trk=True), leaf(3, [n, 1] if len(d) == 1 else d[::-1], other),
                     {"op": "abs_diff_eq", "args": [1, 2], "eps": sc(eps)}, {"op": "relative_eq", "args": [1, 2], "eps": sc(eps), "rel": sc(rel)},
                     {"op": "abs_diff_eq", "args": [2, 1], "eps": sc(eps)}, {"op": "relative_eq", "args": [2, 1], "eps": sc(eps), "rel": sc(rel)},
                     {"op": "abs_diff_eq", "args": [1, 3], "eps": sc(4)}, {"op": "relative_eq", "args": [1, 3], "eps": sc(4), "rel": sc(1)}]
            cases.append(steps)
    # a dimension around a block size: construction, a sample of indices (multi and flat), equality with a copy that
    # differs in the last element only
    for B in (BLOCKY if tier == "thorough" else rnd.sample(BLOCKY, 3) + [33]):
        for d in ([B], [2, B], [B, 3], [2, 1, B]):
            n = prod(d)
            vals = [((5 * k) % 23) - 11 for k in range(n)]
            steps = [RESET, leaf(1, d, vals), leaf(2, d, vals[:-1] + [vals[-1] + 1]), leaf(3, d, vals, trk=True), leaf(4, d, [0] * n, ctor="zeros"),
                     {"op": "eq", "args": [1, 2]}, {"op": "eq", "args": [1, 3]}, {"op": "eq", "args": [4, 1]}]
            for k in sorted(set([0, 1, n - 1, n // 2, 31 % n, 32 % n, 33 % n, 64 % n])):
                steps.append({"op": "index", "args": [1], "flat": k})
                idx, rem = [], k
                for x in reversed(d):
                    idx.insert(0, rem % x)
                    rem //= x
                steps.append({"op": "index", "args": [1], "idx": idx})
            cases.append(steps)
    return cases


# ---------------------------------------------------------------------------------------------
# C07 reductions, reshape, point-wise functions (exact part)
def factorizations(n, max_rank=4):
    out = []

    def rec(rem, pre):
        if len(pre) >= 1 and rem == 1:
            out.append(list(pre))
        if len(pre) == max_rank:
            return
        for f in range(1, rem + 1):
            if rem % f == 0:
                if f == 1 and rem == 1 and len(pre) >= 1:
                    rec(1, pre + [1]) if len(pre) + 1 <= max_rank and pre.count(1) < 2 else None
                elif rem % f == 0:
                    rec(rem // f, pre + [f])
    rec(n, [])
    uniq = []
    for o in out:
        if o not in uniq and len(o) <= max_rank:
            uniq.append(o)
    return uniq


def c07_cases(tier, seed):
    rnd = random.Random(seed)
    cases = []
    sh = shapes(4, 3)
    for d in sh:
        n = prod(d)
        vals = [F((k % 7) - 3, 1 << (k % 3)) for k in range(n)]          # mixed signs, halves, quarters, zeros
        pw = [(1 if k % 3 else -1) * F(2) ** ((k % 5) - 2) for k in range(n)]   # +-2^k
        steps = [RESET, leaf(1, d, vals), leaf(2, d, pw), leaf(3, d, [k + 1 for k in range(n)])]
        h = 10
        for k in range(0, len(d) + 1):
            steps.append(op("sum", [3], h, k=k)); h += 1
            steps.append(op("sum", [1], h, k=k)); h += 1
        steps.append({"op": "sum_all", "args": [1]})
        steps.append({"op": "sum_all", "args": [3]})
        steps.append(op("neg", [1], h)); h += 1
        for c in (-2, F(1, 2), 3):
            steps.append(op("scale", [1], h, c=sc(c))); h += 1
        steps.append(op("scale_l", [1], h, c=sc(F(-3, 4)))); h += 1
        steps.append(op("relu", [1], h)); h += 1
        for p in (0, 1, 2, 3):
            steps.append(op("powf", [1], h, p={"n": p})); h += 1
        for p in (-1, -2, 4):
            steps.append(op("powf", [2], h, p={"n": p})); h += 1
        steps.append(op("recip", [2], h)); h += 1
        cases.append(steps)
        # reshape: every factorisation of the element count, and refusals
        steps = [RESET, leaf(1, d, [k + 1 for k in range(n)])]
        h = 10
        targets = factorizations(n)
        if tier != "thorough" and len(targets) > 12:
            targets = rnd.sample(targets, 12)
        for t in targets:
            steps.append(op("reshape", [1], h, d=t)); h += 1
        for t in ([n + 1], [n, 2], [max(1, n - 1)] if n > 1 else [2], d + [0], [0]):
            steps.append(op("reshape", [1], h, d=t)); h += 1
        cases.append(steps)
    # every block size 1..40 summed (as one dimension and as a product of two)
    for nblk in range(1, 41):
        steps = [RESET, leaf(1, [2, nblk], [(k % 11) - 5 for k in range(2 * nblk)]), op("sum", [1], 10, k=1), op("sum", [1], 11, k=2),
                 {"op": "sum_all", "args": [1]}]
        for a in range(2, 7):
            if nblk % a == 0 and nblk // a <= 8:
                steps.append(op("reshape", [1], 20 + a, d=[2, a, nblk // a]))
                steps.append(op("sum", [20 + a], 30 + a, k=2))
        cases.append(steps)
    # a dimension around a block size: sums over it and next to it, point-wise maps, reshape
    for B in (BLOCKY if tier == "thorough" else rnd.sample(BLOCKY, 4) + [33]):
        for d in ([B], [2, B], [B, 2], [2, B, 1]):
            n = prod(d)
            steps = [RESET, leaf(1, d, [((3 * k) % 11) - 5 for k in range(n)])]
            h = 10
            for k in range(0, len(d) + 1):
                steps.append(op("sum", [1], h, k=k)); h += 1
            steps += [{"op": "sum_all", "args": [1]}, op("neg", [1], h), op("scale", [1], h + 1, c=sc(F(3, 2))), op("relu", [1], h + 2),
                      op("powf", [1], h + 3, p={"n": 2}), op("reshape", [1], h + 4, d=[n]), op("reshape", [1], h + 5, d=[n, 1])]
            cases.append(steps)
    # beyond the bound: random larger shapes
    nbig = 500 if tier == "thorough" else 120
    for _ in range(nbig):
        d = [rnd.randint(1, 8) for _ in range(rnd.randint(1, 4))]
        n = prod(d)
        if n > 600:
            continue
        steps = [RESET, leaf(1, d, [rnd.randint(-9, 9) for _ in range(n)])]
        h = 10
        for k in range(0, len(d) + 1):
            steps.append(op("sum", [1], h, k=k)); h += 1
        t = rnd.choice(factorizations(n))
        steps.append(op("reshape", [1], h, d=t)); h += 1
        steps.append(op("powf", [1], h, p={"n": 3})); h += 1
        cases.append(steps)
    return cases


# ---------------------------------------------------------------------------------------------
# C05 matrix multiplication
LEADS = [[], [2], [1], [3], [2, 2], [1, 2], [2, 1]]


BLOCKY = [31, 32, 33, 40, 63, 64, 65, 70, 100, 130]       # around the usual block / unroll / panel sizes


def zero_runs(n, run, rnd):
    """values with whole runs of zeros aligned to multiples of `run` (rows / samples that are entirely zero)"""
    vals = [(k % 7) - 3 if (k % 7) != 3 else 4 for k in range(n)]
    blocks = list(range(max(1, n // max(1, run))))
    for b in rnd.sample(blocks, max(1, len(blocks) // 2)):
        for k in range(b * run, min(n, (b + 1) * run)):
            vals[k] = 0
    return vals


def mm_case(da, ta, db, tb, dc=None, trk=(False, False, False), seed=None, va=None, vb=None):
    steps = [RESET,
             leaf(1, da, va or [(k % 7) - 3 for k in range(prod(da))], trk=trk[0]),
             leaf(2, db, vb or [(k % 5) + 1 for k in range(prod(db))], trk=trk[1])]
    args = [1, 2]
    if dc is not None:
        steps.append(leaf(3, dc, [10 * (k + 1) for k in range(prod(dc))], trk=trk[2]))
        args.append(3)
    steps.append(op("matmul", args, 4, ta=ta, tb=tb))
    return steps


def c05_space(sizes=(1, 2, 3)):
    out = []
    for r in sizes:
        for k in sizes:
            for c in sizes:
                for ta in (False, True):
                    for tb in (False, True):
                        ma = [k, r] if ta else [r, k]
                        mb = [c, k] if tb else [k, c]
                        for la in LEADS:
                            for lb in LEADS:
                                for cf in range(7):
                                    dc = [None, [c], [r, c], [1, c], [1], [c + 1], [r + 1, c]][cf]
                                    out.append((la + ma, ta, lb + mb, tb, dc))
    return out


def c05_cases(tier, seed):
    rnd = random.Random(seed)
    space = c05_space()
    pick = space if tier == "thorough" and False else rnd.sample(space, 12000 if tier == "thorough" else 1800)
    cases = [mm_case(*p) for p in pick]
    # inner-dimension mismatches must be refused
    for r in (1, 2, 3):
        for k in (1, 2, 3):
            for c in (1, 2, 3):
                for ta in (False, True):
                    for tb in (False, True):
                        ma = [k, r] if ta else [r, k]
                        mb = [c, k + 1] if tb else [k + 1, c]
                        la = rnd.choice(LEADS[:3])
                        cases.append(mm_case(la + ma, ta, mb, tb))
    # rank-1 forms: a one-row matrix next to a rank>=2 operand; dot product of two vectors
    for k in (1, 2, 3):
        for c in (1, 2, 3):
            for lb in ([], [2], [2, 2]):
                for tb in (False, True):
                    cases.append(mm_case([k], False, lb + ([c, k] if tb else [k, c]), tb, rnd.choice([None, [c], [1]])))
                    cases.append(mm_case(lb + [c, k], False, [k], True))        # [c,k] x column vector
                    cases.append(mm_case(lb + [k, c], True, [k], True))
                for ta in (False, True):
                    for tb in (False, True):
                        cases.append(mm_case([k], ta, lb + [c, k], tb))
                        cases.append(mm_case(lb + [c, k], ta, [k], tb))
        cases.append(mm_case([k], False, [k], False))
        cases.append(mm_case([k], False, [k], False, [1]))
    # beyond the bound: sizes up to 5
    for _ in range(900 if tier == "thorough" else 220):
        r, k, c = rnd.randint(1, 7), rnd.randint(1, 7), rnd.randint(1, 7)
        ta, tb = rnd.random() < 0.5, rnd.random() < 0.5
        la, lb = rnd.choice(LEADS + [[2, 3], [3], [2, 1, 2]]), rnd.choice(LEADS + [[3], [2, 3]])
        dc = rnd.choice([None, [c], [r, c], [1, c], [1]])
        cases.append(mm_case(la + ([k, r] if ta else [r, k]), ta, lb + ([c, k] if tb else [k, c]), tb, dc))
    # one of rows / inner / columns around a block size (fast paths with remainders), every flag pair
    for big in (BLOCKY if tier == "thorough" else rnd.sample(BLOCKY, 5) + [33]):
        for role in range(3):
            for ta in (False, True):
                for tb in (False, True):
                    rkc = [rnd.randint(1, 3) for _ in range(3)]
                    rkc[role] = big
                    r, k, c = rkc
                    la, lb = rnd.choice([[], [2]]), rnd.choice([[], [2], [1]])
                    dc = rnd.choice([None, [c], [r, c], [1, c]])
                    cases.append(mm_case(la + ([k, r] if ta else [r, k]), ta, lb + ([c, k] if tb else [k, c]), tb, dc))
    # the SAME array as both factors (a x a^T, a^T x a, a x a for square a) with every additive-term form
    for r, k in ((1, 2), (2, 2), (2, 3), (3, 2), (3, 3), (1, 1)):
        for lead in ([], [2]):
            for ta, tb in ((False, True), (True, False)) + (((False, False), (True, True)) if r == k else ()):
                rows = k if ta else r
                cols = r if tb and not ta else (k if ta and not tb else (r if not ta and not tb else k))
                if ta == tb:
                    rows = cols = r
                for dc in (None, [cols], [rows, cols], [1, cols], [1]):
                    steps = [RESET, leaf(1, lead + [r, k], [((3 * i) % 7) - 3 for i in range(prod(lead) * r * k)])]
                    args = [1, 1]
                    if dc is not None:
                        steps.append(leaf(3, dc, [10 * (i + 1) + (i % 3) for i in range(prod(dc))]))
                        args.append(3)
                    steps.append(op("matmul", args, 4, ta=ta, tb=tb))
                    cases.append(steps)
    # operands with whole rows / columns / aligned runs of zeros (skipping zero work must not skip non-zero work)
    for _ in range(400 if tier == "thorough" else 100):
        r, k, c = rnd.randint(1, 4), rnd.randint(1, 4), rnd.randint(1, 4)
        ta, tb = rnd.random() < 0.5, rnd.random() < 0.5
        la, lb = rnd.choice([[], [2]]), rnd.choice([[], [2]])
        da, db = la + ([k, r] if ta else [r, k]), lb + ([c, k] if tb else [k, c])
        cases.append(mm_case(da, ta, db, tb, rnd.choice([None, [c]]),
                             va=zero_runs(prod(da), rnd.choice([da[-1], da[-2], 2]), rnd),
                             vb=zero_runs(prod(db), rnd.choice([db[-1], db[-2], 2]), rnd) if rnd.random() < 0.5 else None))
    return cases


# ---------------------------------------------------------------------------------------------
# C06 convolution
def conv_case(batch, depth, ir, ic, cnt, fr, fc, sr, sc_, fdepth=None, trk=(False, False)):
    di = batch + [depth, ir, ic]
    df = [cnt, depth if fdepth is None else fdepth, fr, fc]
    return [RESET,
            leaf(1, di, [(k % 11) - 5 for k in range(prod(di))], trk=trk[0]),
            leaf(2, df, [(k % 4) + 1 if k % 3 else -(k % 3) - 1 for k in range(prod(df))], trk=trk[1]),
            op("conv", [1, 2], 3, sr=sr, sc=sc_)]


def c06_space():
    out = []
    for ir in range(1, 6):
        for ic in range(1, 6):
            for depth in (1, 2):
                for cnt in (1, 2):
                    for fr in range(1, min(3, ir) + 1):
                        for fc in range(1, min(3, ic) + 1):
                            for sr in (1, 2, 3):
                                for sc_ in (1, 2, 3):
                                    for batch in ([], [1], [2], [3], [2, 2]):
                                        out.append((batch, depth, ir, ic, cnt, fr, fc, sr, sc_))
    return out


def c06_cases(tier, seed):
    rnd = random.Random(seed)
    space = c06_space()
    pick = rnd.sample(space, 10000 if tier == "thorough" else 1500)
    cases = [conv_case(*p) for p in pick]
    for p in rnd.sample(space, 100):
        cases.append(conv_case(*p, fdepth=p[1] + 1))      # depth mismatch: refused
    for B in (BLOCKY[:7] if tier == "thorough" else rnd.sample(BLOCKY[:7], 2) + [33]):
        cases.append(conv_case([], 1, 2, B, 2, 2, 2, 1, rnd.choice([1, 2])))        # wide image: B-1 windows per row
        cases.append(conv_case([], 1, B, 2, 1, 2, 1, rnd.choice([1, 3]), 1))       # tall image
        cases.append(conv_case([], 1, 3, 3, B, 2, 2, 1, 1))                         # B filters
        cases.append(conv_case([B], 1, 2, 2, 2, 1, 2, 1, 1))                        # B images
    for _ in range(500 if tier == "thorough" else 120):     # beyond the bound
        ir, ic = rnd.randint(3, 9), rnd.randint(3, 9)
        fr, fc = rnd.randint(1, 5), rnd.randint(1, 5)
        if fr > ir or fc > ic:
            continue
        cases.append(conv_case(rnd.choice([[], [2], [4], [2, 1, 2], [1, 3]]), rnd.randint(1, 3), ir, ic, rnd.randint(1, 3), fr, fc,
                               rnd.randint(1, 4), rnd.randint(1, 4)))
    return cases
