"""Scenario families for the pure-function properties (C04 - C07, C16): spec-enumerable shape spaces."""
import random
from fractions import Fraction as F

from progs import *


def ew_case(da, db, rnd=None, ops=("add", "sub", "mul", "axpy", "div"), trk=(False, False)):
    """one case: two position-coded operands, every element-wise operation on them"""
    na, nb = prod(da), prod(db)
    steps = [RESET,
             leaf(1, da, [k + 1 for k in range(na)], trk=trk[0]),
             leaf(2, db, [100 + k + 1 for k in range(nb)], trk=trk[1])]
    h = 10
    for o in ops:
        if o == "div":
            # divisors are +-2^k so that the quotient is an exact dyadic
            steps.append(leaf(3, db, [(1 if k % 3 else -1) * F(2) ** ((k % 5) - 2) for k in range(nb)]))
            steps.append(op("div", [1, 3], h))
        elif o == "axpy":
            steps.append(op("axpy", [1, 2], h, alpha=sc(F(-3, 2))))
        else:
            steps.append(op(o, [1, 2], h))
        h += 1
    return steps


def c04_cases(tier, seed):
    rnd = random.Random(seed)
    sh = shapes(4, 3)
    pairs = [(a, b) for a in sh for b in sh]          # all 14 400 ordered pairs
    cases = []
    if tier == "thorough":
        for a, b in pairs:
            cases.append(ew_case(a, b))
    else:
        # every pair with `add`; the other operations on a seeded sample of pairs
        sample = set(rnd.sample(range(len(pairs)), 1500))
        for k, (a, b) in enumerate(pairs):
            cases.append(ew_case(a, b, ops=("add", "sub", "mul", "axpy", "div") if k in sample else ("add",)))
    # beyond the exhaustive bound: random pairs with sizes up to 6
    big = []
    n = 3000 if tier == "thorough" else 400
    while len(big) < n:
        r1, r2 = rnd.randint(1, 4), rnd.randint(1, 4)
        a = [rnd.choice([1, 1, 2, 3, 4, 5, 6]) for _ in range(r1)]
        if rnd.random() < 0.7:
            # derive a mostly-compatible partner
            b = [x if rnd.random() < 0.6 else rnd.choice([1, x, rnd.randint(1, 6)]) for x in a][-r2:]
        else:
            b = [rnd.choice([1, 2, 3, 4, 5, 6]) for _ in range(r2)]
        if prod(a) * prod(b) > 40000 or (bdims(a, b) and prod(bdims(a, b)) > 400):
            continue
        big.append(ew_case(a, b, ops=("add", "mul", "div")))
    return cases + big
