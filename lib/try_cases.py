#!/usr/bin/env python3
"""debug aid: run a list of cases through executor + validator and summarise"""
import sys, os, json, collections
sys.path.insert(0, os.path.dirname(os.path.abspath(__file__)))
import pipeline as P


def run(cases, tag="tmp", spec="TraceExact", real=False, f32=False, quiet=False):
    wd = os.path.join(P.OUT, tag)
    os.makedirs(wd, exist_ok=True)
    prog, ev = os.path.join(wd, "r.prog.ndjson"), os.path.join(wd, "r.ev.ndjson")
    P.write_programs(prog, cases)
    exe = P.build_executor(f32)
    P.run_executor(exe, prog, ev, real=real)
    res = P.validate(spec, ev, wd, f32=f32)
    if not quiet:
        print(res["summary"])
        print(collections.Counter((m["op"], m["why"]) for m in res["mismatches"]).most_common(25))
        print(collections.Counter((m["kind"], m["op"]) for m in res["unspec"]).most_common(10))
    res["prog"] = prog
    res["ev"] = ev
    return res
