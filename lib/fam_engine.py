"""Scenario families for the derivative / engine properties (C01 - C03, C09 - C12, C17, C18, C08)."""
import random
from fractions import Fraction as F

from progs import *
import fam_shapes as FS


def seed_tensor(d, k0=0, signed=True):
    """non-uniform seed: distinct small primes by position (a transposed, dropped or overwritten
    contribution changes the result)"""
    n = prod(d)
    vals = [PRIMES[(k0 + k) % len(PRIMES)] * (-1 if signed and k % 4 == 3 else 1) for k in range(n)]
    return tensor(d, vals)


def subsets(n):
    return [[bool(m >> i & 1) for i in range(n)] for m in range(1, 1 << n)]


def grads_of(hs):
    return [{"op": "grad", "args": [h], "res": 90 + k} for k, h in enumerate(hs)]


# ---------------------------------------------------------------------------------------------
# C02: every operation alone, every parameterisation, every tracked subset of its operands
def c02_cases(tier, seed):
    rnd = random.Random(seed)
    thorough = tier == "thorough"
    cases = []

    def finish(steps, res_dims, out=10, k0=0):
        steps.append(backward(out, seed_tensor(res_dims, k0)))
        return steps

    # element-wise operations over broadcast pairs
    sh = shapes(3, 3)
    pairs = [(a, b) for a in sh for b in sh if bdims(a, b)]
    if not thorough:
        pairs = rnd.sample(pairs, 260)
    for a, b in pairs:
        od = bdims(a, b)
        na, nb = prod(a), prod(b)
        for o in ("add", "sub", "mul", "div", "axpy"):
            for trk in (subsets(2) if thorough else [rnd.choice(subsets(2))]):
                va = [(k % 5) - 2 if o != "div" else k + 1 for k in range(na)]
                vb = [(k % 7) - 3 for k in range(nb)] if o != "div" else \
                    [(1 if k % 3 else -1) * F(2) ** ((k % 4) - 1) for k in range(nb)]
                steps = [RESET, leaf(1, a, va, trk=trk[0]), leaf(2, b, vb, trk=trk[1])]
                par = {"alpha": sc(F(-3, 2))} if o == "axpy" else {}
                steps.append(op(o, [1, 2], 10, **par))
                cases.append(finish(steps, od, k0=na))
    # unary operations
    for d in (shapes(3, 3) if thorough else rnd.sample(shapes(4, 3), 40)):
        n = prod(d)
        mixed = [F((k % 7) - 3, 1 << (k % 2)) if (k % 7) != 3 else F(5, 2) for k in range(n)]   # no zeros (relu')
        pw = [(1 if k % 3 else -1) * F(2) ** ((k % 5) - 2) for k in range(n)]
        un = [("neg", {}, mixed), ("scale", {"c": sc(F(-3, 2))}, mixed), ("scale_l", {"c": sc(3)}, mixed),
              ("relu", {}, mixed), ("recip", {}, pw), ("csq", {"bw": True}, mixed)]
        for p in (0, 1, 2, 3, 4):
            un.append(("powf", {"p": {"n": p}}, [v if abs(v) < 3 else v / 2 for v in mixed]))
        for p in (-1, -2):
            un.append(("powf", {"p": {"n": p}}, pw))
        for name, par, vals in un:
            steps = [RESET, leaf(1, d, vals, trk=True), op(name, [1], 10, **par)]
            cases.append(finish(steps, d, k0=3))
        for k in range(1, len(d) + 1):
            steps = [RESET, leaf(1, d, mixed, trk=True), op("sum", [1], 10, k=k)]
            cases.append(finish(steps, d[:len(d) - k] + [1], k0=k))
        for t in rnd.sample(FS.factorizations(n), min(3, len(FS.factorizations(n)))):
            steps = [RESET, leaf(1, d, mixed, trk=True), op("reshape", [1], 10, d=t)]
            cases.append(finish(steps, t))
    # matmul: sizes x flags x additive forms x leading patterns x tracked subsets
    space = FS.c05_space()
    for (da, ta, db, tb, dc) in rnd.sample(space, 6000 if thorough else 500):
        if dc is not None and dc[-1] != (db[-2] if tb else db[-1]):
            continue       # refused additive terms belong to C05
        if dc is not None and len(dc) == 2 and dc[0] not in (1, da[-1] if ta else da[-2]):
            continue
        la, lb = da[:-2], db[:-2]
        lead = bdims(la, lb) if (la and lb) else (la or lb)
        if lead is None:
            continue
        od = lead + [da[-1] if ta else da[-2], db[-2] if tb else db[-1]]
        trk = rnd.choice(subsets(3 if dc is not None else 2)) + [False]
        cases.append(finish(FS.mm_case(da, ta, db, tb, dc, trk=trk[:3])[:-1] +
                            [op("matmul", [1, 2] + ([3] if dc is not None else []), 10, ta=ta, tb=tb)], od, k0=1))
    # rank-1 forms
    for k in (1, 2, 3):
        for c in (1, 2, 3):
            cases.append(finish(FS.mm_case([k], False, [c, k], True, [c], trk=(True, True, True))[:-1] +
                                [op("matmul", [1, 2, 3], 10, ta=False, tb=True)], [1, c]))
            cases.append(finish(FS.mm_case([2, c, k], False, [k], True, None, trk=(True, True, False))[:-1] +
                                [op("matmul", [1, 2], 10, ta=False, tb=True)], [2, c, 1]))
        cases.append(finish(FS.mm_case([k], False, [k], False, None, trk=(True, True, False))[:-1] +
                            [op("matmul", [1, 2], 10, ta=False, tb=False)], [1]))
    # conv: overlapping / non-overlapping / non-dividing strides, batches, both operands
    cspace = [p for p in FS.c06_space() if p[2] <= 4 and p[3] <= 4] if not thorough else FS.c06_space()
    for p in rnd.sample(cspace, 3000 if thorough else 400):
        batch, depth, ir, ic, cnt, fr, fc, sr, sc_ = p
        od = batch + [cnt, (ir - fr) // sr + 1, (ic - fc) // sc_ + 1]
        trk = rnd.choice(subsets(2))
        steps = FS.conv_case(*p, trk=trk)
        steps[-1] = op("conv", [1, 2], 10, sr=sr, sc=sc_)
        cases.append(finish(steps, od, k0=2))
    # user operations through Array::op
    for d in rnd.sample(shapes(3, 3), 12):
        n = prod(d)
        for name, ar in (("cadd", 2), ("cmul", 2), ("cfma", 3)):
            for trk in subsets(ar):
                steps = [RESET] + [leaf(1 + j, d, [(k * (j + 2)) % 7 - 3 for k in range(n)], trk=trk[j]) for j in range(ar)]
                steps.append(op(name, list(range(1, ar + 1)), 10, bw=True))
                cases.append(finish(steps, d, k0=5))
    return cases


# ---------------------------------------------------------------------------------------------
# programs enumerated / simulated by TLC from the specification itself (spec -> code direction)
def tlc_programs(cfg, workdir, simulate=None, seed=1, limit=None, rnd=None):
    import json, os, re, shutil, subprocess
    import pipeline as P
    meta = os.path.join(workdir, "meta_gen_" + cfg)
    cmd = ["tlc", "-workers", "1", "-metadir", meta, "-cleanup", "-noGenerateSpecTE",
           "-config", os.path.join(P.SPEC, cfg + ".cfg")]
    if simulate:
        cmd += ["-simulate", "num=%d" % simulate[0], "-depth", str(simulate[1]), "-seed", str(seed)]
    cmd.append(os.path.join(P.SPEC, "GenEngine.tla"))
    env = dict(os.environ, JAVA_TOOL_OPTIONS="-Xss512m")
    os.makedirs(workdir, exist_ok=True)
    p = subprocess.run(cmd, cwd=workdir, env=env, capture_output=True, text=True, timeout=3000)
    shutil.rmtree(meta, ignore_errors=True)
    progs, seen = [], set()
    for ln in p.stdout.splitlines():
        if ln.startswith('<<"PROG", "'):
            body = ln[len('<<"PROG", '):-2]
            if body in seen:
                continue
            seen.add(body)
            progs.append(json.loads(json.loads(body)))
    if "Error:" in p.stdout or not progs:
        raise P.ToolError("GenEngine/%s failed:\n%s" % (cfg, "\n".join(p.stdout.splitlines()[-30:])))
    m = re.search(r"(\d+) states generated, (\d+) distinct states found", p.stdout)
    stats = {"cfg": cfg, "programs": len(progs), "states": int(m.group(2)) if m else len(progs),
             "transitions": int(m.group(1)) if m else len(progs), "simulate": bool(simulate)}
    if limit and len(progs) > limit:
        progs = (rnd or random.Random(seed)).sample(progs, limit)
    return progs, stats


# ---------------------------------------------------------------------------------------------
# random programs over the whole exact-domain API (code -> spec direction)
class Gen:
    """keeps just enough bookkeeping (dims, tracked flag per handle) to write well-formed programs;
    it has no values and decides nothing"""

    def __init__(self, rnd, maxel=36):
        self.r = rnd
        self.steps = [RESET]
        self.H = {}          # handle -> {"d": dims, "t": tracked}
        self.nh = 0
        self.maxel = maxel
        self.npass = 0

    def new(self, d, t):
        self.nh += 1
        self.H[self.nh] = {"d": list(d), "t": t}
        return self.nh

    def leaf(self, d, vals=None, trk=None, small=True):
        n = prod(d)
        if vals is None:
            vals = [self.r.choice([-3, -2, -1, 1, 2, 3, F(1, 2), F(-3, 2)] if small else range(-9, 10)) for _ in range(n)]
        trk = self.r.random() < 0.7 if trk is None else trk
        h = self.new(d, trk)
        self.steps.append(leaf(h, d, vals, trk=trk))
        return h

    def pick(self, pred=lambda h, v: True):
        c = [h for h, v in self.H.items() if pred(h, v)]
        return self.r.choice(c) if c else None

    def emit(self, name, args, dims, **par):
        t = any(self.H[a]["t"] for a in args)
        if name in ("cadd", "cmul", "csq", "cfma"):
            par["bw"] = t
        h = self.new(dims, t)
        self.steps.append(op(name, args, h, **par))
        return h

    def random_op(self):
        r = self.r
        kind = r.choice(["ew", "ew", "ew", "un", "un", "sum", "reshape", "matmul", "custom", "div", "relu"])
        if kind == "ew":
            a = self.pick()
            b = self.pick(lambda h, v: bdims(self.H[a]["d"], v["d"]) is not None and prod(bdims(self.H[a]["d"], v["d"])) <= self.maxel)
            if b is None:
                return
            if r.random() < 0.5:
                a, b = b, a
            name = r.choice(["add", "sub", "mul", "mul", "axpy"])
            par = {"alpha": sc(r.choice([2, -1, F(1, 2)]))} if name == "axpy" else {}
            self.emit(name, [a, b], bdims(self.H[a]["d"], self.H[b]["d"]), **par)
        elif kind == "un":
            a = self.pick()
            name = r.choice(["neg", "scale", "scale_l", "powf"])
            par = {"c": sc(r.choice([2, -1, F(1, 2), 3]))} if name.startswith("scale") else \
                ({"p": {"n": r.choice([2, 2, 3, 1])}} if name == "powf" else {})
            self.emit(name, [a], self.H[a]["d"], **par)
        elif kind == "relu":
            a = self.pick()
            self.emit("relu", [a], self.H[a]["d"])
        elif kind == "sum":
            a = self.pick()
            d = self.H[a]["d"]
            k = r.randint(1, len(d))
            self.emit("sum", [a], d[:len(d) - k] + [1], k=k)
        elif kind == "reshape":
            a = self.pick()
            t = r.choice(FS.factorizations(prod(self.H[a]["d"])))
            self.emit("reshape", [a], t, d=t)
        elif kind == "div":
            a = self.pick()
            d = self.H[a]["d"]
            dd = r.choice([d, d[-1:], [1]])
            b = self.leaf(dd, [r.choice([1, -1]) * F(2) ** r.randint(-2, 2) for _ in range(prod(dd))])
            self.emit("div", [a, b], bdims(d, dd))
        elif kind == "matmul":
            a = self.pick(lambda h, v: len(v["d"]) >= 2)
            if a is None:
                return
            da = self.H[a]["d"]
            ta = r.random() < 0.4
            rows, inner = (da[-1], da[-2]) if ta else (da[-2], da[-1])
            tb = r.random() < 0.5
            b = self.pick(lambda h, v: len(v["d"]) >= 2 and (v["d"][-1] if tb else v["d"][-2]) == inner
                          and bdims(da[:-2] or [1], v["d"][:-2] or [1]) is not None)
            if b is None:
                cols = r.randint(1, 3)
                b = self.leaf([cols, inner] if tb else [inner, cols])
            db = self.H[b]["d"]
            cols = db[-2] if tb else db[-1]
            la, lb = da[:-2], db[:-2]
            lead = bdims(la, lb) if (la and lb) else (la or lb)
            args = [a, b]
            if r.random() < 0.5:
                dc = r.choice([[cols], [rows, cols], [1, cols], [1]])
                c = self.pick(lambda h, v: v["d"] == dc)
                args.append(c if c is not None else self.leaf(dc))
            if prod(lead + [rows, cols]) <= self.maxel:
                self.emit("matmul", args, lead + [rows, cols], ta=ta, tb=tb)
        elif kind == "custom":
            a = self.pick()
            same = [h for h, v in self.H.items() if v["d"] == self.H[a]["d"]]
            name = r.choice(["cadd", "cmul", "csq", "cfma"])
            ar = {"cadd": 2, "cmul": 2, "csq": 1, "cfma": 3}[name]
            self.emit(name, [a] + [r.choice(same) for _ in range(ar - 1)], self.H[a]["d"])

    def handle_step(self):
        r = self.r
        x = r.random()
        h = self.pick()
        if h is None:
            return
        if x < 0.35:
            c = self.new(self.H[h]["d"], self.H[h]["t"])
            self.steps.append(op("clone", [h], c))
        elif x < 0.6 and len(self.H) > 2:
            self.steps.append({"op": "drop", "args": [h]})
            del self.H[h]
        else:
            k = r.choice(["tracked", "untracked", "start", "stop"])
            self.steps.append({"op": k, "args": [h]})
            self.H[h]["t"] = k in ("tracked", "start")

    def backward(self, h=None, seeded=None):
        h = h or self.pick()
        seeded = self.r.random() < 0.6 if seeded is None else seeded
        d = self.H[h]["d"]
        self.steps.append(backward(h, tensor(d, [self.r.choice([1, 2, 3, 5, -1, F(1, 2)]) for _ in range(prod(d))]) if seeded else None))
        self.npass += 1

    def control_flow(self):
        """data-dependent branch: c = c*a if c[k] > thr else c + a (both branches give the same dims and flags)"""
        r = self.r
        c = self.pick()
        a = self.pick(lambda h, v: bdims(self.H[c]["d"], v["d"]) == self.H[c]["d"])
        if a is None:
            return
        self.steps.append({"op": "cmp", "args": [c], "k": r.randrange(prod(self.H[c]["d"])), "thr": sc(r.choice([0, 1, -2, 4]))})
        t = self.H[c]["t"] or self.H[a]["t"]
        h = self.new(self.H[c]["d"], t)
        self.steps.append(dict(op("mul", [c, a], h), when=True))
        self.steps.append(dict(op("add", [c, a], h), when=False))


def random_program(rnd, nleaves=(2, 4), nsteps=(4, 12), p_pass=0.22, handles=True, passes_end=True):
    g = Gen(rnd)
    base = [rnd.randint(1, 3) for _ in range(rnd.randint(1, 3))]
    for _ in range(rnd.randint(*nleaves)):
        d = list(base)
        x = rnd.random()
        if x < 0.3:
            d = [v if rnd.random() < 0.5 else 1 for v in d]
        elif x < 0.5:
            d = d[rnd.randrange(len(d)):]
        g.leaf(d)
    for _ in range(rnd.randint(*nsteps)):
        x = rnd.random()
        if x < p_pass:
            g.backward()
        elif x < p_pass + 0.08:
            h = g.pick()
            g.steps.append({"op": "clear", "args": [h], "how": rnd.choice(["replace", "mut"])})
        elif x < p_pass + 0.14:
            h = g.pick()
            res = g.nh + 1
            g.steps.append({"op": "grad", "args": [h], "res": res})
            # whether a handle appears depends on the state; do not use it later (bookkeeping stays exact)
            g.nh += 1
        elif x < p_pass + 0.2 and handles:
            g.handle_step()
        elif x < p_pass + 0.25:
            g.control_flow()
        elif x < p_pass + 0.28 and handles and len(g.H) > 2:
            h = g.pick()
            g.steps.append({"op": "into_vec", "args": [h]})
            del g.H[h]
        else:
            g.random_op()
    if passes_end:
        g.backward(h=max(g.H))
    return g.steps


def random_cases(seed, n, **kw):
    rnd = random.Random(seed)
    return [random_program(rnd, **kw) for _ in range(n)]
