"""Scenario families for the derivative / engine properties (C01 - C03, C09 - C12, C17, C18, C08)."""
import random
from fractions import Fraction as F

from progs import *
import fam_shapes as FS


def seed_tensor(d, k0=0, signed=True):
    """non-uniform seed: distinct small primes by position (a transposed, dropped or overwritten
    contribution changes the result)"""
    n = prod(d)
    vals = [PRIMES[(k0 + k) % len(PRIMES)] * (-1 if signed and k % 4 == 3 else 1) for k in range(n)]
    return tensor(d, vals)


def subsets(n):
    return [[bool(m >> i & 1) for i in range(n)] for m in range(1, 1 << n)]


def grads_of(hs):
    return [{"op": "grad", "args": [h], "res": 90 + k} for k, h in enumerate(hs)]


# ---------------------------------------------------------------------------------------------
# C02: every operation alone, every parameterisation, every tracked subset of its operands
def c02_cases(tier, seed):
    rnd = random.Random(seed)
    thorough = tier == "thorough"
    cases = []

    def finish(steps, res_dims, out=10, k0=0):
        steps.append(backward(out, seed_tensor(res_dims, k0)))
        return steps

    # element-wise operations over broadcast pairs
    sh = shapes(3, 3)
    pairs = [(a, b) for a in sh for b in sh if bdims(a, b)]
    if not thorough:
        pairs = rnd.sample(pairs, 260)
    for a, b in pairs:
        od = bdims(a, b)
        na, nb = prod(a), prod(b)
        for o in ("add", "sub", "mul", "div", "axpy"):
            for trk in (subsets(2) if thorough else [rnd.choice(subsets(2))]):
                va = [(k % 5) - 2 if o != "div" else k + 1 for k in range(na)]
                vb = [(k % 7) - 3 for k in range(nb)] if o != "div" else \
                    [(1 if k % 3 else -1) * F(2) ** ((k % 4) - 1) for k in range(nb)]
                steps = [RESET, leaf(1, a, va, trk=trk[0]), leaf(2, b, vb, trk=trk[1])]
                par = {"alpha": sc(F(-3, 2))} if o == "axpy" else {}
                steps.append(op(o, [1, 2], 10, **par))
                cases.append(finish(steps, od, k0=na))
    # unary operations
    for d in (shapes(3, 3) if thorough else rnd.sample(shapes(4, 3), 40)):
        n = prod(d)
        mixed = [F((k % 7) - 3, 1 << (k % 2)) if (k % 7) != 3 else F(5, 2) for k in range(n)]   # no zeros (relu')
        pw = [(1 if k % 3 else -1) * F(2) ** ((k % 5) - 2) for k in range(n)]
        un = [("neg", {}, mixed), ("scale", {"c": sc(F(-3, 2))}, mixed), ("scale_l", {"c": sc(3)}, mixed),
              ("relu", {}, mixed), ("recip", {}, pw), ("csq", {"bw": True}, mixed)]
        for p in (0, 1, 2, 3, 4):
            un.append(("powf", {"p": {"n": p}}, [v if abs(v) < 3 else v / 2 for v in mixed]))
        for p in (-1, -2):
            un.append(("powf", {"p": {"n": p}}, pw))
        for p in (1, 2, 3):       # bases that are exactly zero: d/dx x^p = p x^(p-1) is 0 (or 1 for p = 1)
            un.append(("powf", {"p": {"n": p}}, [0 if k % 2 == 0 else v for k, v in enumerate(mixed)]))
        for name, par, vals in un:
            steps = [RESET, leaf(1, d, vals, trk=True), op(name, [1], 10, **par)]
            cases.append(finish(steps, d, k0=3))
        for k in range(1, len(d) + 1):
            steps = [RESET, leaf(1, d, mixed, trk=True), op("sum", [1], 10, k=k)]
            cases.append(finish(steps, d[:len(d) - k] + [1], k0=k))
        for t in rnd.sample(FS.factorizations(n), min(3, len(FS.factorizations(n)))):
            steps = [RESET, leaf(1, d, mixed, trk=True), op("reshape", [1], 10, d=t)]
            cases.append(finish(steps, t))
    # matmul: sizes x flags x additive forms x leading patterns x tracked subsets
    space = FS.c05_space()
    for (da, ta, db, tb, dc) in rnd.sample(space, 6000 if thorough else 350):
        if dc is not None and dc[-1] != (db[-2] if tb else db[-1]):
            continue       # refused additive terms belong to C05
        if dc is not None and len(dc) == 2 and dc[0] not in (1, da[-1] if ta else da[-2]):
            continue
        la, lb = da[:-2], db[:-2]
        lead = bdims(la, lb) if (la and lb) else (la or lb)
        if lead is None:
            continue
        od = lead + [da[-1] if ta else da[-2], db[-2] if tb else db[-1]]
        trk = rnd.choice(subsets(3 if dc is not None else 2)) + [False]
        cases.append(finish(FS.mm_case(da, ta, db, tb, dc, trk=trk[:3])[:-1] +
                            [op("matmul", [1, 2] + ([3] if dc is not None else []), 10, ta=ta, tb=tb)], od, k0=1))
    # rank-1 forms
    for k in (1, 2, 3):
        for c in (1, 2, 3):
            cases.append(finish(FS.mm_case([k], False, [c, k], True, [c], trk=(True, True, True))[:-1] +
                                [op("matmul", [1, 2, 3], 10, ta=False, tb=True)], [1, c]))
            cases.append(finish(FS.mm_case([2, c, k], False, [k], True, None, trk=(True, True, False))[:-1] +
                                [op("matmul", [1, 2], 10, ta=False, tb=True)], [2, c, 1]))
        cases.append(finish(FS.mm_case([k], False, [k], False, None, trk=(True, True, False))[:-1] +
                            [op("matmul", [1, 2], 10, ta=False, tb=False)], [1]))
    # conv: overlapping / non-overlapping / non-dividing strides, batches, both operands
    cspace = [p for p in FS.c06_space() if p[2] <= 4 and p[3] <= 4] if not thorough else FS.c06_space()
    for p in rnd.sample(cspace, 3000 if thorough else 280):
        batch, depth, ir, ic, cnt, fr, fc, sr, sc_ = p
        od = batch + [cnt, (ir - fr) // sr + 1, (ic - fc) // sc_ + 1]
        trk = rnd.choice(subsets(2))
        steps = FS.conv_case(*p, trk=trk)
        steps[-1] = op("conv", [1, 2], 10, sr=sr, sc=sc_)
        cases.append(finish(steps, od, k0=2))
    # user operations through Array::op
    for d in rnd.sample(shapes(3, 3), 12):
        n = prod(d)
        for name, ar in (("cadd", 2), ("cmul", 2), ("cfma", 3)):
            for trk in subsets(ar):
                steps = [RESET] + [leaf(1 + j, d, [(k * (j + 2)) % 7 - 3 for k in range(n)], trk=trk[j]) for j in range(ar)]
                steps.append(op(name, list(range(1, ar + 1)), 10, bw=True))
                cases.append(finish(steps, d, k0=5))
    # the same matmul / conv cases with SPARSE seeds: whole rows, samples or aligned runs of the adjoint are zero
    # (an implementation that skips zero work must not skip non-zero work)
    import copy
    extra = []
    for c in cases:
        if c[-2]["op"] in ("matmul", "conv") and rnd.random() < (0.5 if thorough else 0.35):
            c2 = copy.deepcopy(c)
            sd = c2[-1]["seed"]
            d = sd["d"]
            run = rnd.choice([d[-1], prod(d[-2:]), 2])
            vals = FS.zero_runs(prod(d), run, rnd)
            c2[-1] = backward(10, tensor(d, [PRIMES[k % 40] if v else 0 for k, v in enumerate(vals)]))
            extra.append(c2)
    return cases + extra


# ---------------------------------------------------------------------------------------------
# programs enumerated / simulated by TLC from the specification itself (spec -> code direction)
def tlc_programs(cfg, workdir, simulate=None, seed=1, limit=None, rnd=None):
    import json, os, re, shutil, subprocess
    import pipeline as P
    meta = os.path.join(workdir, "meta_gen_" + cfg)
    cmd = ["tlc", "-workers", "1", "-metadir", meta, "-cleanup", "-noGenerateSpecTE",
           "-config", os.path.join(P.SPEC, cfg + ".cfg")]
    if simulate:
        cmd += ["-simulate", "num=%d" % simulate[0], "-depth", str(simulate[1]), "-seed", str(seed)]
    cmd.append(os.path.join(P.SPEC, "GenEngine.tla"))
    env = dict(os.environ, JAVA_TOOL_OPTIONS="-Xss512m")
    os.makedirs(workdir, exist_ok=True)
    p = subprocess.run(cmd, cwd=workdir, env=env, capture_output=True, text=True, timeout=3000)
    shutil.rmtree(meta, ignore_errors=True)
    progs, seen = [], set()
    for ln in p.stdout.splitlines():
        if ln.startswith('<<"PROG", "'):
            body = ln[len('<<"PROG", '):-2]
            if body in seen:
                continue
            seen.add(body)
            progs.append(json.loads(json.loads(body)))
    if "Error:" in p.stdout or not progs:
        raise P.ToolError("GenEngine/%s failed:\n%s" % (cfg, "\n".join(p.stdout.splitlines()[-30:])))
    m = re.search(r"(\d+) states generated, (\d+) distinct states found", p.stdout)
    stats = {"cfg": cfg, "programs": len(progs), "states": int(m.group(2)) if m else len(progs),
             "transitions": int(m.group(1)) if m else len(progs), "simulate": bool(simulate)}
    if limit and len(progs) > limit:
        progs = (rnd or random.Random(seed)).sample(progs, limit)
    return progs, stats


# ---------------------------------------------------------------------------------------------
# random programs over the whole exact-domain API (code -> spec direction)
class Gen:
    """keeps just enough bookkeeping (dims, tracked flag per handle) to write well-formed programs;
    it has no values and decides nothing"""

    def __init__(self, rnd, maxel=36):
        self.r = rnd
        self.steps = [RESET]
        self.H = {}          # handle -> {"d": dims, "t": tracked}
        self.nh = 0
        self.maxel = maxel
        self.npass = 0

    def new(self, d, t):
        self.nh += 1
        self.H[self.nh] = {"d": list(d), "t": t}
        return self.nh

    def leaf(self, d, vals=None, trk=None, small=True):
        n = prod(d)
        if vals is None:
            pool = [-3, -2, -1, 1, 2, 3, F(1, 2), F(-3, 2)] if small else list(range(-9, 10))
            if self.r.random() < 0.2:
                pool = [0, 0, -1, -2, 1]          # zeros and inactive relu units: adjoints that are entirely zero
            vals = [self.r.choice(pool) for _ in range(n)]
        trk = self.r.random() < 0.7 if trk is None else trk
        h = self.new(d, trk)
        self.steps.append(leaf(h, d, vals, trk=trk))
        return h

    def pick(self, pred=lambda h, v: True):
        c = [h for h, v in self.H.items() if pred(h, v)]
        return self.r.choice(c) if c else None

    def emit(self, name, args, dims, **par):
        t = any(self.H[a]["t"] for a in args)
        if name in ("cadd", "cmul", "csq", "cfma"):
            # a user operation is tracked iff it comes with a derivative; now and then it has one although
            # every operand is untracked
            t = t or self.r.random() < 0.15
            if t and self.r.random() < 0.08:
                t = False              # ... and now and then it has none although an operand is tracked: untracked result
            par["bw"] = t
        h = self.new(dims, t)
        self.steps.append(op(name, args, h, **par))
        return h

    def random_op(self):
        r = self.r
        kind = r.choice(["ew", "ew", "ew", "un", "un", "sum", "reshape", "matmul", "custom", "div", "relu"])
        if kind == "ew":
            a = self.pick()
            b = self.pick(lambda h, v: bdims(self.H[a]["d"], v["d"]) is not None and prod(bdims(self.H[a]["d"], v["d"])) <= self.maxel)
            if b is None:
                return
            if r.random() < 0.5:
                a, b = b, a
            name = r.choice(["add", "sub", "mul", "mul", "axpy"])
            par = {"alpha": sc(r.choice([2, -1, F(1, 2)]))} if name == "axpy" else {}
            self.emit(name, [a, b], bdims(self.H[a]["d"], self.H[b]["d"]), **par)
        elif kind == "un":
            a = self.pick()
            name = r.choice(["neg", "scale", "scale_l", "powf"])
            par = {"c": sc(r.choice([2, -1, F(1, 2), 3]))} if name.startswith("scale") else \
                ({"p": {"n": r.choice([2, 2, 3, 1])}} if name == "powf" else {})
            self.emit(name, [a], self.H[a]["d"], **par)
        elif kind == "relu":
            a = self.pick()
            self.emit("relu", [a], self.H[a]["d"])
        elif kind == "sum":
            a = self.pick()
            d = self.H[a]["d"]
            k = r.randint(1, len(d))
            self.emit("sum", [a], d[:len(d) - k] + [1], k=k)
        elif kind == "reshape":
            a = self.pick()
            t = r.choice(FS.factorizations(prod(self.H[a]["d"])))
            self.emit("reshape", [a], t, d=t)
        elif kind == "div":
            a = self.pick()
            d = self.H[a]["d"]
            dd = r.choice([d, d[-1:], [1]])
            b = self.leaf(dd, [r.choice([1, -1]) * F(2) ** r.randint(-2, 2) for _ in range(prod(dd))])
            self.emit("div", [a, b], bdims(d, dd))
        elif kind == "matmul":
            a = self.pick(lambda h, v: len(v["d"]) >= 2)
            if a is None:
                return
            da = self.H[a]["d"]
            ta = r.random() < 0.4
            rows, inner = (da[-1], da[-2]) if ta else (da[-2], da[-1])
            tb = r.random() < 0.5
            b = self.pick(lambda h, v: len(v["d"]) >= 2 and (v["d"][-1] if tb else v["d"][-2]) == inner
                          and bdims(da[:-2] or [1], v["d"][:-2] or [1]) is not None)
            if b is None:
                cols = r.randint(1, 3)
                b = self.leaf([cols, inner] if tb else [inner, cols])
            db = self.H[b]["d"]
            cols = db[-2] if tb else db[-1]
            la, lb = da[:-2], db[:-2]
            lead = bdims(la, lb) if (la and lb) else (la or lb)
            args = [a, b]
            if r.random() < 0.5:
                dc = r.choice([[cols], [rows, cols], [1, cols], [1]])
                c = self.pick(lambda h, v: v["d"] == dc)
                args.append(c if c is not None else self.leaf(dc))
            if prod(lead + [rows, cols]) <= self.maxel:
                self.emit("matmul", args, lead + [rows, cols], ta=ta, tb=tb)
        elif kind == "custom":
            a = self.pick()
            same = [h for h, v in self.H.items() if v["d"] == self.H[a]["d"]]
            name = r.choice(["cadd", "cmul", "csq", "cfma"])
            ar = {"cadd": 2, "cmul": 2, "csq": 1, "cfma": 3}[name]
            self.emit(name, [a] + [r.choice(same) for _ in range(ar - 1)], self.H[a]["d"])

    def handle_step(self):
        r = self.r
        x = r.random()
        h = self.pick()
        if h is None:
            return
        if x < 0.35:
            c = self.new(self.H[h]["d"], self.H[h]["t"])
            self.steps.append(op("clone", [h], c))
        elif x < 0.6 and len(self.H) > 2:
            self.steps.append({"op": "drop", "args": [h]})
            del self.H[h]
        else:
            k = r.choice(["tracked", "untracked", "start", "stop"])
            self.steps.append({"op": k, "args": [h]})
            self.H[h]["t"] = k in ("tracked", "start")

    def backward(self, h=None, seeded=None):
        h = h or self.pick()
        seeded = self.r.random() < 0.6 if seeded is None else seeded
        d = self.H[h]["d"]
        st = backward(h, tensor(d, [self.r.choice([1, 2, 3, 5, -1, F(1, 2)]) for _ in range(prod(d))]) if seeded else None)
        if self.r.random() < 0.12:
            st["hold"] = self.pick()        # the caller still holds a borrow of this handle's gradient slot
        self.steps.append(st)
        self.npass += 1

    def control_flow(self):
        """data-dependent branch: c = c*a if c[k] > thr else c + a (both branches give the same dims and flags)"""
        r = self.r
        c = self.pick()
        a = self.pick(lambda h, v: bdims(self.H[c]["d"], v["d"]) == self.H[c]["d"])
        if a is None:
            return
        self.steps.append({"op": "cmp", "args": [c], "k": r.randrange(prod(self.H[c]["d"])), "thr": sc(r.choice([0, 1, -2, 4]))})
        t = self.H[c]["t"] or self.H[a]["t"]
        h = self.new(self.H[c]["d"], t)
        self.steps.append(dict(op("mul", [c, a], h), when=True))
        self.steps.append(dict(op("add", [c, a], h), when=False))


def random_program(rnd, nleaves=(2, 4), nsteps=(4, 12), p_pass=0.22, handles=True, passes_end=True):
    g = Gen(rnd)
    base = [rnd.randint(1, 3) for _ in range(rnd.randint(1, 3))]
    for _ in range(rnd.randint(*nleaves)):
        d = list(base)
        x = rnd.random()
        if x < 0.3:
            d = [v if rnd.random() < 0.5 else 1 for v in d]
        elif x < 0.5:
            d = d[rnd.randrange(len(d)):]
        g.leaf(d)
    for _ in range(rnd.randint(*nsteps)):
        x = rnd.random()
        if x < p_pass:
            g.backward()
        elif x < p_pass + 0.08:
            h = g.pick()
            g.steps.append({"op": "clear", "args": [h], "how": rnd.choice(["replace", "mut"])})
        elif x < p_pass + 0.1:
            h = g.pick()
            d = g.H[h]["d"]
            g.steps.append({"op": "setgrad", "args": [h], "g": tensor(d, [rnd.choice([1, -2, 3, F(1, 2)]) for _ in range(prod(d))])})
        elif x < p_pass + 0.14:
            h = g.pick()
            res = g.nh + 1
            g.steps.append({"op": "grad", "args": [h], "res": res})
            # whether a handle appears depends on the state; do not use it later (bookkeeping stays exact)
            g.nh += 1
        elif x < p_pass + 0.2 and handles:
            g.handle_step()
        elif x < p_pass + 0.25:
            g.control_flow()
        elif x < p_pass + 0.28 and handles and len(g.H) > 2:
            h = g.pick()
            g.steps.append({"op": "into_vec", "args": [h]})
            del g.H[h]
        else:
            g.random_op()
    if passes_end:
        g.backward(h=max(g.H))
    return g.steps


def random_cases(seed, n, **kw):
    rnd = random.Random(seed)
    return [random_program(rnd, **kw) for _ in range(n)]


def quiet_cases(seed, n, **kw):
    """random histories during which the harness looks at NOTHING (no gradient() / values() calls of its own between
    the steps): every live handle is observed once, after the last step.  What a program computes must not depend on
    being watched (a lazily flushed accumulation queue, a cache filled by a read, ...)."""
    rnd = random.Random(seed)
    cases = []
    for _ in range(n):
        p = random_program(rnd, handles=False, **kw)
        if rnd.random() < 0.6:
            p = [s for s in p if s["op"] != "grad"]          # no reads by the program itself either
        p[0] = dict(p[0], quiet=True)
        p.append({"op": "clone", "args": [1], "res": 9999, "obs": True})
        cases.append(p)
    # the pattern itself: passes, a clear through gradient_mut, further passes - observed only at the end
    for d in ([1], [2], [2, 2]):
        n_ = prod(d)
        for how in ("mut", "replace"):
            for npre in (1, 2):
                for npost in (1, 2):
                    steps = [dict(RESET, quiet=True), leaf(1, d, [PRIMES[k] for k in range(n_)], trk=True), leaf(2, d, [PRIMES[4 + k] for k in range(n_)], trk=True),
                             op("mul", [1, 2], 3), op("add", [3, 1], 4)]
                    steps += [backward(4, tensor(d, [PRIMES[8 + j + k] for k in range(n_)])) for j in range(npre)]
                    steps.append({"op": "clear", "args": [1], "how": how})
                    steps += [backward(4, tensor(d, [PRIMES[12 + j + k] for k in range(n_)])) for j in range(npost)]
                    steps.append({"op": "clone", "args": [1], "res": 9999, "obs": True})
                    cases.append(steps)
    return cases


# ---------------------------------------------------------------------------------------------
# C03: broadcast operands used 1..3 times, 1..2 passes, then a two-parameter update
def c03_cases(tier, seed):
    rnd = random.Random(seed)
    sh = shapes(3, 3)
    pairs = [(a, b) for a in sh for b in sh if bdims(a, b) == b and a != b]     # a is broadcast to b's shape
    if tier != "thorough":
        pairs = rnd.sample(pairs, 220)
    cases = []
    for a, b in pairs:
        na, nb = prod(a), prod(b)
        for uses in (1, 2, 3):
            for passes in (1, 2):
                if tier != "thorough" and rnd.random() < 0.5:
                    continue
                steps = [RESET, leaf(1, a, [(k % 5) - 2 for k in range(na)], trk=True),
                         leaf(2, b, [(k % 7) - 3 for k in range(nb)], trk=rnd.random() < 0.5)]
                cur, h = 2, 10
                for u in range(uses):
                    o = rnd.choice(["add", "mul", "sub", "axpy"])
                    args = [1, cur] if rnd.random() < 0.5 else [cur, 1]
                    steps.append(op(o, args, h, **({"alpha": sc(2)} if o == "axpy" else {})))
                    cur = h
                    h += 1
                for p in range(passes):
                    steps.append(backward(cur, seed_tensor(b, k0=p)))
                steps.append({"op": "grad", "args": [1], "res": 90})
                # the positional-shift consequence: update two parameters after such a pass
                steps.append({"op": "tracked", "args": [2]})
                steps.append({"op": "update", "args": [1, 2], "lr": sc(F(1, 2))})
                cases.append(steps)
    # the additive term of matmul broadcast over rows and batches, used twice
    for (r, k, c) in [(2, 2, 3), (1, 3, 2), (3, 1, 1), (2, 3, 2)]:
        for lead in ([], [2], [2, 2]):
            for dc in ([c], [1, c], [1], [r, c]):
                steps = [RESET, leaf(1, lead + [r, k], [(i % 5) - 2 for i in range(prod(lead) * r * k)], trk=True),
                         leaf(2, [k, c], [(i % 3) + 1 for i in range(k * c)], trk=True),
                         leaf(3, dc, [i + 1 for i in range(prod(dc))], trk=True),
                         op("matmul", [1, 2, 3], 10, ta=False, tb=False),
                         op("add", [10, 3], 11) if dc != [r, c] or True else None,
                         backward(11, seed_tensor(lead + [r, c])), backward(11)]
                cases.append([s for s in steps if s])
    return cases


# ---------------------------------------------------------------------------------------------
# C09: tracking rules for every operation
OPS_ARITY = [("add", 2), ("sub", 2), ("mul", 2), ("div", 2), ("axpy", 2), ("neg", 1), ("scale", 1), ("powf", 1),
             ("recip", 1), ("sum", 1), ("reshape", 1), ("relu", 1), ("matmul2", 2), ("matmul3", 3), ("conv", 2),
             ("mse", 2), ("cadd", 2), ("cmul", 2), ("csq", 1), ("cfma", 3)]


def one_op_steps(name, trk, h0=1, res=10):
    """operands on handles h0.., the operation on `res`; returns (steps, result dims)"""
    d = [2, 2]
    pw = [1, -2, F(1, 2), 4]
    vals = [[1, -2, 3, 2], [2, 1, -1, 3], [1, 2, 3, 4]]
    if name == "conv":
        st = [leaf(h0, [1, 3, 3], list(range(1, 10)), trk=trk[0]), leaf(h0 + 1, [1, 1, 2, 2], [1, -1, 2, 1], trk=trk[1])]
        return st + [op("conv", [h0, h0 + 1], res, sr=1, sc=1)], [1, 2, 2]
    ar = dict(OPS_ARITY)[name]
    st = []
    for j in range(ar):
        st.append(leaf(h0 + j, d, pw if (name in ("div",) and j == 1) or name == "recip" else vals[j], trk=trk[j]))
    args = list(range(h0, h0 + ar))
    if name.startswith("matmul"):
        return st + [op("matmul", args, res, ta=False, tb=True)], d
    if name == "mse":
        return st + [{"op": "cost", "kind": "mse", "args": args, "res": res}], d
    par = {"axpy": {"alpha": sc(-2)}, "scale": {"c": sc(3)}, "powf": {"p": {"n": 3}}, "sum": {"k": 1},
           "reshape": {"d": [4]}}.get(name, {})
    if name in ("cadd", "cmul", "csq", "cfma"):
        par["bw"] = any(trk)
    od = {"sum": [2, 1], "reshape": [4]}.get(name, d)
    return st + [op(name, args, res, **par)], od


def c09_cases(tier, seed):
    rnd = random.Random(seed)
    cases = []
    for name, ar in OPS_ARITY:
        for m in range(0, 1 << ar):
            trk = [bool(m >> i & 1) for i in range(ar)]
            st, od = one_op_steps(name, trk)
            steps = [RESET] + st
            if not any(trk):
                # a result of untracked operands keeps no reference to them: each operand owns its buffer again
                steps.append({"op": "clone", "args": [10], "res": 11})
                for j in range(ar):
                    if not (name == "reshape"):
                        steps.append({"op": "into_vec", "args": [1 + j]})
                steps.append(backward(10))          # stores only on the array it is started on
            else:
                # flags around and after a pass, gradients plain, untracked operands receive nothing
                steps.append({"op": "clone", "args": [1], "res": 20})
                steps.append({"op": "tracked" if not trk[0] else "untracked", "args": [20]})   # flag of a clone only
                steps.append(backward(10, seed_tensor(od)))
                steps += grads_of(list(range(1, 1 + ar)))
                steps.append({"op": "stop", "args": [10]})
                steps.append({"op": "start", "args": [10]})
                steps.append(backward(10))
            cases.append(steps)
    # operands whose tracking flag and keep flag differ: start_tracking() on a fresh array (tracked, no keep) and
    # tracked() followed by stop_tracking() (untracked, keep): only the tracking flag decides
    for name, ar in OPS_ARITY:
        for m in range(0, 1 << ar):
            want = [bool(m >> i & 1) for i in range(ar)]
            st, od = one_op_steps(name, [not w for w in want])        # created with the opposite flags ...
            pre, opstep = st[:-1], st[-1]
            flips = [{"op": "start" if w else "stop", "args": [1 + j]} for j, w in enumerate(want)]   # ... then flipped
            if "bw" in opstep:
                opstep = dict(opstep, bw=any(want))
            steps = [RESET] + pre + flips + [opstep]
            if not any(want):
                for j in range(ar):
                    if name != "reshape":
                        steps.append({"op": "into_vec", "args": [1 + j]})
            else:
                steps.append(backward(10, seed_tensor(od)))
                steps += grads_of(list(range(1, 1 + ar)))
            cases.append(steps)
    # element-wise operations under broadcasting, every tracked subset: the gradients of BOTH operands are plain
    # untracked arrays, whichever operand is the smaller one (and the gradient can be used as a constant afterwards)
    for a, b in (([1], [3]), ([3], [1]), ([1], [2, 2]), ([2, 1], [2, 3]), ([2, 3], [3]), ([3], [2, 3]), ([1, 1], [2]), ([2, 1, 2], [3, 1])):
        for name in ("add", "sub", "mul", "div", "axpy"):
            for m in range(1, 4):
                trk = [bool(m & 1), bool(m & 2)]
                vb = [(1 if k % 2 else -1) * F(2) ** ((k % 3) - 1) for k in range(prod(b))]
                steps = [RESET, leaf(1, a, [k + 1 for k in range(prod(a))], trk=trk[0]), leaf(2, b, vb, trk=trk[1]),
                         op(name, [1, 2], 10, **({"alpha": sc(2)} if name == "axpy" else {})),
                         backward(10, seed_tensor(bdims(a, b)))]
                steps += grads_of([1, 2])
                # the fetched gradients used as constants in a second graph: nothing flows back through them
                for k, h in enumerate((1, 2)):
                    if trk[k]:
                        steps += [op("mul", [90 + k, h], 30 + k), backward(30 + k)]
                cases.append(steps)
    # a user operation WITHOUT a derivative whose forward closure is written with library operations (x0*x0 + x1):
    # its result is tracked iff an operand is, and gradients flow through the graph the closure recorded
    for d in ([1], [3], [2, 2]):
        n = prod(d)
        for m in range(0, 4):
            trk = [bool(m & 1), bool(m & 2)]
            steps = [RESET, leaf(1, d, [PRIMES[k] for k in range(n)], trk=trk[0]), leaf(2, d, [PRIMES[6 + k] for k in range(n)], trk=trk[1]),
                     op("clib", [1, 2], 10), op("mul", [10, 2], 11), backward(11, seed_tensor(d))]
            steps += grads_of([1, 2, 10])
            steps += [backward(10), op("clib", [10, 1], 12), backward(12)]
            cases.append(steps)
    # untracked intermediate: nothing flows below it
    for variant in range(8):
        steps = [RESET, leaf(1, [3], [1, 2, 3], trk=True), leaf(2, [3], [2, -1, 1], trk=True),
                 op("mul", [1, 2], 3)]
        steps.append({"op": ["untracked", "stop"][variant % 2], "args": [3]})
        steps.append(op(["add", "mul"][(variant >> 1) % 2], [3, 2], 4))
        if variant >= 4:
            steps.append({"op": "start", "args": [3]})       # re-tracking later does not change the recorded use
        steps.append(backward(4, seed_tensor([3])))
        steps += grads_of([1, 2, 3])
        cases.append(steps)
    cases += random_cases(seed + 17, 1500 if tier == "thorough" else 250, p_pass=0.3)
    return cases


# ---------------------------------------------------------------------------------------------
# C11: graphs of user operations only; every derivative invocation is logged
def c11_cases(tier, seed):
    rnd = random.Random(seed)
    cases = []
    # self-product chains: 2^depth paths, depth derivative evaluations
    for depth in ([1, 2, 3, 5, 8, 13, 21, 34, 60] if tier != "thorough" else list(range(1, 61))):
        for kind in ("cmul", "cadd"):
            steps = [RESET, leaf(1, [2], [1, 1] if kind == "cmul" else [1, -1], trk=True)]
            cur = 1
            for k in range(depth):
                steps.append(op(kind, [cur, cur], 2 + k, bw=True))
                cur = 2 + k
            steps.append(backward(cur, None, budget=4 * depth + 8))
            cases.append(steps)
    # random DAGs of user operations with fan-out, diamonds, mixed tracking
    n = 1500 if tier == "thorough" else 300
    for _ in range(n):
        d = rnd.choice([[1], [2], [2, 2]])
        g = Gen(rnd)
        for _ in range(rnd.randint(1, 3)):
            g.leaf(d, trk=rnd.random() < 0.65)
        for _ in range(rnd.randint(2, 9)):
            name = rnd.choice(["cadd", "cmul", "cmul", "csq", "cfma"])
            ar = {"cadd": 2, "cmul": 2, "csq": 1, "cfma": 3}[name]
            g.emit(name, [g.pick() for _ in range(ar)], d)
            if rnd.random() < 0.15:
                g.handle_step()
        root = max(g.H)
        if rnd.random() < 0.5:
            # intermediates whose handles are gone before the pass: the graph's own edges are the only references left
            for h in [h for h in list(g.H) if h != root and rnd.random() < 0.6]:
                if sum(1 for x in g.H) > 1:
                    g.steps.append({"op": "drop", "args": [h]})
                    del g.H[h]
        g.backward(h=root)
        if rnd.random() < 0.5:
            g.backward()
        cases.append(g.steps)
    # a one-operand user operation consumed at exactly two positions (two parents, or twice by one parent), its own
    # handle alive or dropped before the pass
    for d in ([1], [3], [2, 2]):
        n = prod(d)
        for shape_ in ("two_parents", "twice_by_one", "three_uses", "chain_of_two"):
            for dropped in (False, True):
                for first in ("csq", "cmul"):
                    steps = [RESET, leaf(1, d, [PRIMES[k] for k in range(n)], trk=True), leaf(2, d, [PRIMES[5 + k] for k in range(n)], trk=True)]
                    steps.append(op(first, [1] if first == "csq" else [1, 2], 3, bw=True))
                    if shape_ == "two_parents":
                        steps += [op("csq", [3], 4, bw=True), op("cmul", [3, 2], 5, bw=True), op("cadd", [4, 5], 6, bw=True)]
                    elif shape_ == "twice_by_one":
                        steps += [op("cmul", [3, 3], 6, bw=True)]
                    elif shape_ == "three_uses":
                        steps += [op("cfma", [3, 3, 3], 6, bw=True)]
                    else:
                        steps += [op("csq", [3], 4, bw=True), op("cadd", [4, 3], 5, bw=True), op("cmul", [5, 4], 6, bw=True)]
                    if dropped:
                        steps += [{"op": "drop", "args": [h]} for h in (3, 4, 5) if any(s.get("res") == h for s in steps)]
                    steps.append(backward(6, tensor(d, [PRIMES[10 + k] for k in range(n)])))
                    steps.append(backward(6))
                    cases.append(steps)
    return cases


def seed_alias_update_cases(tier, seed):
    """C18: the seed is a clone (or a reshaped view) of a live array w; the engine may store that very array as a
    gradient.  Once the gradients have been consumed by an update (or cleared) and the results dropped, nothing of
    the finished computation may still refer to w's buffer: Vec::from(w) must succeed."""
    cases = []
    for d in ([2], [3], [2, 2]):
        n = prod(d)
        for root in ("add", "sub", "mul", "neg", "reshape", "axpy"):
            for how in ("update", "clear_replace", "clear_mut"):
                for view in (False, True):
                    steps = [RESET, leaf(1, d, [PRIMES[k] for k in range(n)], trk=True), leaf(2, d, [PRIMES[5 + k] for k in range(n)], trk=True),
                             leaf(3, [n] if view else d, [PRIMES[10 + k] for k in range(n)])]
                    if root in ("add", "sub", "mul"):
                        steps.append(op(root, [1, 2], 10))
                    elif root == "axpy":
                        steps.append(op("axpy", [1, 2], 10, alpha=sc(2)))
                    elif root == "neg":
                        steps.append(op("neg", [1], 10))
                    else:
                        steps.append(op("reshape", [1], 10, d=[1] + d))
                    od = [1] + d if root == "reshape" else d
                    steps.append(dict(backward(10), seedv=3, seedd=od) if view else dict(backward(10), seedh=3))
                    steps.append({"op": "drop", "args": [10]})
                    if how == "update":
                        steps.append({"op": "update", "args": [1, 2], "lr": sc(F(1, 2))})
                    else:
                        steps += [{"op": "clear", "args": [h], "how": how.split("_")[1]} for h in (1, 2)]
                    steps.append({"op": "into_vec", "args": [3]})
                    cases.append(steps)
    return cases


def seed_view_cases(tier, seed):
    """C08: seeds and fetched gradients that SHARE STORAGE with live handles (reshaped views), then further passes
    on the same root and on views of it: whatever the engine does with the arrays it was handed or handed out, the
    values seen through every live handle stay what they were (digest of every live handle at every event)."""
    rnd = random.Random(seed)
    cases = []
    roots = [("mul", 2), ("neg", 1), ("scale", 1), ("relu", 1), ("add", 2), ("csq", 1), ("matmul", 2), ("reshape", 1), ("sum0", 1), ("powf", 1)]
    for d in ([2], [3], [2, 2], [2, 3]):
        n = prod(d)
        for name, ar in roots:
            for variant in ("seed_view", "grad_view", "root_view"):
                steps = [RESET, leaf(1, d, [PRIMES[k] * (-1 if k % 3 == 1 else 1) for k in range(n)], trk=True),
                         leaf(2, d, [PRIMES[7 + k] for k in range(n)], trk=rnd.random() < 0.5),
                         leaf(3, [n], [PRIMES[15 + k] for k in range(n)]), leaf(4, [1, n], [PRIMES[20 + k] * (-1 if k % 2 else 1) for k in range(n)])]
                if name == "matmul":
                    if len(d) != 2:
                        continue
                    steps.append(op("matmul", [1, 2], 10, ta=False, tb=True))
                    od = [d[0], d[0]]
                elif name == "reshape":
                    steps.append(op("reshape", [1], 10, d=[n, 1]))
                    od = [n, 1]
                elif name == "sum0":
                    steps.append(op("sum", [1], 10, k=0))
                    od = d
                else:
                    par = {"scale": {"c": sc(3)}, "powf": {"p": {"n": 2}}, "csq": {"bw": True}}.get(name, {})
                    steps.append(op(name, [1, 2][:ar], 10, **par))
                    od = d
                m = prod(od)
                if m != n:
                    steps += [leaf(3, [m], [PRIMES[15 + k] for k in range(m)]), leaf(4, [1, m], [PRIMES[20 + k] for k in range(m)])]
                fresh = backward(10, tensor(od, [PRIMES[30 + k] for k in range(m)]))
                if variant == "seed_view":
                    steps += [dict(backward(10), seedv=3, seedd=od), fresh, dict(backward(10), seedv=4, seedd=od), backward(10),
                              dict(backward(10), seedv=3, seedd=od)]
                elif variant == "grad_view":
                    steps += [fresh, {"op": "grad", "args": [10], "res": 20}, op("reshape", [20], 21, d=[m]), backward(10), fresh,
                              {"op": "grad", "args": [1], "res": 22}, op("reshape", [22], 23, d=[1, n]), backward(10), {"op": "drop", "args": [20]},
                              backward(10)]
                else:
                    steps += [op("reshape", [10], 11, d=[1, m]), backward(11), {"op": "grad", "args": [11], "res": 20},
                              {"op": "grad", "args": [10], "res": 21}, backward(10), fresh, backward(11), backward(10)]
                cases.append(steps)
    return cases


# ---------------------------------------------------------------------------------------------
# C12: handle-transparent variants of a program
def variants_of(steps, rnd):
    """clone an operand before use / start the pass from a clone / read gradients through a clone /
    drop handles as soon as they are dead / re-bind handle ids"""
    out = []
    maxh = max([s.get("res", 0) for s in steps] + [a for s in steps for a in s.get("args", [])]) + 1
    # 1. every operand of every operation replaced by a fresh clone
    v, nh = [], maxh
    for s in steps:
        if s["op"] in ("add", "sub", "mul", "matmul", "neg", "scale", "sum", "reshape", "cmul", "cadd", "cfma", "csq",
                       "relu", "powf", "axpy", "div") and "when" not in s:
            na = []
            for a in s["args"]:
                v.append({"op": "clone", "args": [a], "res": nh})
                na.append(nh)
                nh += 1
            v.append(dict(s, args=na))
            for a in na:
                v.append({"op": "drop", "args": [a]})
        elif s["op"] == "backward":
            v.append({"op": "clone", "args": s["args"], "res": nh})
            v.append(dict(s, args=[nh]))
            nh += 1
        else:
            v.append(s)
    out.append(v)
    # 2. drop every handle right after its last mention
    last = {}
    for i, s in enumerate(steps):
        for a in s.get("args", []) + ([s["res"]] if "res" in s else []):
            last[a] = i
    v = []
    alive = set()
    for i, s in enumerate(steps):
        v.append(s)
        if s["op"] in ("drop", "into_vec"):
            alive.discard(s["args"][0])
        if "res" in s and s["op"] != "grad":
            alive.add(s["res"])
        for a in list(alive):
            if last.get(a) == i and i < len(steps) - 1 and "when" not in s and not (i + 1 < len(steps) and "when" in steps[i + 1]):
                v.append({"op": "drop", "args": [a]})
                alive.discard(a)
    out.append(v)
    return out


def c12_cases(tier, seed):
    rnd = random.Random(seed)
    base = random_cases(seed + 5, 1200 if tier == "thorough" else 220, handles=False)
    cases = []
    for b in base:
        cases.append(b)
        cases += variants_of(b, rnd)
    # a gradient deposited through any clone is visible through every other clone
    for k in range(6):
        steps = [RESET, leaf(1, [2], [3, -1], trk=True), {"op": "clone", "args": [1], "res": 2},
                 {"op": "clone", "args": [2], "res": 3}, op("mul", [2, 3], 4), {"op": "clone", "args": [4], "res": 5}]
        steps.append(backward([4, 5][k % 2], seed_tensor([2])))
        steps += grads_of([1, 2, 3][k % 3:] + [1])
        steps.append({"op": "setgrad", "args": [[1, 2, 3][k % 3]], "g": tensor([2], [7, 9])})
        steps.append({"op": "drop", "args": [[1, 2, 3][(k + 1) % 3]]})
        steps.append({"op": "clear", "args": [[1, 2, 3][(k + 2) % 3]], "how": "replace"})
        cases.append(steps)
    return cases


# ---------------------------------------------------------------------------------------------
# C17: seed linearity, omitted seed = ones
def c17_cases(tier, seed):
    rnd = random.Random(seed)
    cases = []
    # result sizes up to 81 elements: no seed vs explicit ones (checked against the same specification)
    for d in [[1], [1, 1], [1, 1, 1], [2, 1], [2], [8], [9], [3, 3], [2, 2, 3], [4, 4], [3, 3, 3], [5, 7], [3, 3, 3, 3], [2, 5, 5], [81], [64]]:
        n = prod(d)
        for o in ("mul", "add", "csq"):
            steps = [RESET, leaf(1, d, [(k % 7) - 3 for k in range(n)], trk=True),
                     leaf(2, d[-1:], [(k % 3) + 1 for k in range(d[-1])], trk=True)]
            steps.append(op(o, [1, 2], 3) if o != "csq" else op("csq", [1], 3, bw=True))
            steps.append(backward(3))
            steps += grads_of([1, 2])
            steps += [{"op": "clear", "args": [1], "how": "mut"}, {"op": "clear", "args": [2], "how": "replace"},
                      {"op": "clear", "args": [3], "how": "replace"}]
            steps.append(backward(3, tensor(d, [1] * n)))
            cases.append(steps)
    # degenerate coefficients: the zero seed and one-hot seeds (alpha = 0 or beta = 0 in the linearity relation):
    # an adjoint that is entirely zero is still an adjoint - gradients are zeros, not absent, not ones
    for d in ([2], [3], [2, 2]):
        n = prod(d)
        for o in ("relu", "mul", "csq", "sum"):
            for hot in range(-1, n):
                steps = [RESET, leaf(1, d, [(-1) ** k * (k + 1) for k in range(n)], trk=True),
                         leaf(2, d, [k + 2 for k in range(n)], trk=True)]
                if o == "relu":
                    steps += [op("relu", [1], 3), op("mul", [3, 2], 4)]
                elif o == "mul":
                    steps += [op("mul", [1, 2], 3), op("add", [3, 1], 4)]
                elif o == "csq":
                    steps += [op("csq", [1], 3, bw=True), op("cmul", [3, 2], 4, bw=True)]
                else:
                    steps += [op("mul", [1, 2], 3), op("neg", [3], 4)]
                steps.append(backward(4, tensor(d, [1 if k == hot else 0 for k in range(n)])))
                steps += grads_of([1, 2, 3])
                steps.append(backward(4))
                cases.append(steps)
    # dense-layer and conv shaped programs with seeds in which whole samples / rows are zero: s1 sparse, s2 dense,
    # and their combination (the adjoint is the transposed left operand of the weight-gradient product)
    for b in (2, 3):
        for i_, o_ in ((1, 2), (2, 2), (3, 2), (2, 3), (2, 1)):
            for zero_at in range(b):
                s1 = [0 if k // o_ == zero_at else PRIMES[k] for k in range(b * o_)]
                s2 = [PRIMES[11 + k] * (-1 if k % 2 else 1) for k in range(b * o_)]
                for sd in (s1, s2, [2 * x - 3 * y for x, y in zip(s1, s2)]):
                    steps = [RESET, leaf(1, [b, i_], [(k % 5) + 1 for k in range(b * i_)], trk=True),
                             leaf(2, [o_, i_], [(k % 7) - 3 for k in range(o_ * i_)], trk=True), leaf(3, [o_], list(range(1, o_ + 1)), trk=True),
                             op("matmul", [1, 2, 3], 4, ta=False, tb=True), backward(4, tensor([b, o_], sd))]
                    cases.append(steps + grads_of([1, 2, 3]))
    for zero_at in range(2):
        s1 = [0 if k // 4 == zero_at else PRIMES[k] for k in range(8)]
        s2 = [PRIMES[9 + k] for k in range(8)]
        for sd in (s1, s2, [2 * x - 3 * y for x, y in zip(s1, s2)]):
            steps = FS.conv_case([2], 1, 3, 3, 1, 2, 2, 1, 1, trk=(True, True))
            steps[-1] = op("conv", [1, 2], 4, sr=1, sc=1)
            cases.append(steps + [backward(4, tensor([2, 1, 2, 2], sd))] + grads_of([1, 2]))
    # alpha*s1 + beta*s2 on random programs: three fresh instances of the same program
    n = 900 if tier == "thorough" else 150
    for _ in range(n):
        g = Gen(rnd)
        base = [rnd.randint(1, 3) for _ in range(rnd.randint(1, 3))]
        for _ in range(rnd.randint(1, 3)):
            g.leaf(base if rnd.random() < 0.6 else base[-1:])
        for _ in range(rnd.randint(2, 7)):
            g.random_op()
        root = max(g.H)
        d = g.H[root]["d"]
        s1 = [rnd.choice([1, 2, 3, -1, 5]) for _ in range(prod(d))]
        s2 = [rnd.choice([1, -2, 4, 7, 0]) for _ in range(prod(d))]
        al, be = rnd.choice([2, -1, F(1, 2), 3]), rnd.choice([1, -3, F(1, 4)])
        for sd in (s1, s2, [al * x + be * y for x, y in zip(s1, s2)]):
            cases.append(g.steps + [backward(root, tensor(d, sd))])
    return cases


# ---------------------------------------------------------------------------------------------
# programs transcribed from the repository's README / unit tests (suite-derived traces): the same graphs,
# but every value, flag and gradient of every handle is validated at every step, not a few hand-computed numbers
def suite_derived_cases():
    cases = []
    # README / module doc: data-dependent control flow over ten iterations
    for (a0, b0, thr) in ((5, 2, 50), (3, 2, 20), (2, -3, 5), (F(1, 2), 4, 3)):
        steps = [RESET, leaf(1, [1], [a0], trk=True), leaf(2, [1], [b0], trk=True), leaf(3, [1], [0], trk=True)]
        c, h = 3, 10
        for _ in range(10):
            steps.append(op("mul", [1, 2], h))
            steps.append(op("add", [c, h], h + 1))
            steps.append({"op": "cmp", "args": [h + 1], "k": 0, "thr": sc(thr)})
            steps.append(dict(op("mul", [h + 1, 1], h + 2), when=True))
            steps.append(dict({"op": "clone", "args": [h + 1], "res": h + 2}, when=False))
            steps += [{"op": "drop", "args": [h]}, {"op": "drop", "args": [h + 1]}]
            if c != 3:
                steps.append({"op": "drop", "args": [c]})
            c = h + 2
            h += 3
        steps.append(backward(c))
        steps += grads_of([1, 2, 3, c])
        cases.append(steps)
    # test_backward_continue / test_propagate_continue: extend a graph after a pass and differentiate again
    steps = [RESET, leaf(1, [1], [5], trk=True), leaf(2, [1], [2], trk=True), op("mul", [1, 2], 3), op("add", [3, 1], 4),
             backward(4), op("mul", [4, 2], 5), backward(5), backward(4), {"op": "clear", "args": [1], "how": "replace"},
             op("add", [5, 4], 6), backward(6, tensor([1], [3]))]
    cases.append(steps)
    # test_backward_intermediate / test_backward_drop / test_consumers_drop
    steps = [RESET, leaf(1, [3], [1, 2, 3], trk=True), op("mul", [1, 1], 2), op("mul", [1, 1], 3), {"op": "drop", "args": [2]},
             backward(3), op("mul", [3, 1], 4), op("add", [4, 3], 5), {"op": "drop", "args": [4]}, backward(3), backward(5)]
    cases.append(steps)
    # test_backward_untracked(_both/_clone)
    for t1, t2 in ((False, True), (False, False), (True, False)):
        steps = [RESET, leaf(1, [3], [1, 2, 3], trk=t1), leaf(2, [3], [3, 2, 1], trk=t2), op("mul", [1, 2], 3),
                 {"op": "clone", "args": [1], "res": 4}, {"op": "tracked", "args": [4]}, op("mul", [4, 3], 5),
                 backward(5), backward(3)]
        cases.append(steps)
    # dense-layer shaped matmul with bias (test_matmul_broadcast_dense), batched
    steps = [RESET, leaf(1, [2, 3], [1, 2, 3, 4, 5, 6], trk=False), leaf(2, [2, 3], [1, -1, 2, 0, 1, 1], trk=True),
             leaf(3, [2], [F(1, 2), -1], trk=True), op("matmul", [1, 2, 3], 4, ta=False, tb=True), op("relu", [4], 5),
             backward(5), op("sum", [5], 6, k=2), backward(6)]
    cases.append(steps)
    return cases


# ---------------------------------------------------------------------------------------------
# scale: wide fan-out, deep chains, many passes (beyond what exhaustive enumeration reaches)
def scale_cases(tier, seed):
    rnd = random.Random(seed)
    cases = []
    # one leaf consumed by k+1 operations (consumer counts above 8, 255, ...)
    for k in ([9, 17, 40, 260, 300] if tier != "thorough" else [5, 9, 16, 17, 33, 64, 65, 129, 255, 256, 257, 300, 520]):
        steps = [RESET, leaf(1, [2], [1, -2], trk=True), leaf(2, [2], [3, 1], trk=True)]
        cur, h = 2, 10
        for i in range(k):
            steps.append(op("add" if i % 3 else "mul", [cur, 1] if i % 2 else [1, cur], h) if i % 3 else op("add", [cur, 1], h))
            if cur >= 10:
                steps.append({"op": "drop", "args": [cur]})
            cur = h
            h += 1
        steps.append(backward(cur, tensor([2], [1, F(1, 2)])))
        steps += grads_of([1, 2])
        steps.append(backward(cur))
        cases.append(steps)
    # deep chains of built-in operations
    for depth in ([45, 90] if tier != "thorough" else [20, 41, 45, 64, 90, 130]):
        steps = [RESET, leaf(1, [3], [1, -1, 2], trk=True)]
        cur = 1
        for i in range(depth):
            o = ["neg", "scale", "relu", "reshape"][i % 4]
            par = {"scale": {"c": sc(-1 if i % 8 else 2)}, "reshape": {"d": [3] if i % 8 == 3 else [1, 3]}}.get(o, {})
            steps.append(op(o, [cur], 10 + i, **par))
            cur = 10 + i
        steps.append(backward(cur))
        steps += grads_of([1])
        cases.append(steps)
    # many passes over one graph, with drops of siblings and clears in between
    for npass in (3, 4, 6, 9):
        steps = [RESET, leaf(1, [2], [2, -1], trk=True), leaf(2, [2], [1, 3], trk=True),
                 op("mul", [1, 2], 3), op("add", [3, 1], 4), op("mul", [3, 3], 5), op("sub", [5, 4], 6), op("mul", [4, 2], 7)]
        roots = [6, 7, 4, 5, 3]
        for p in range(npass):
            steps.append(backward(roots[p % len(roots)], None if p % 2 else tensor([2], [p + 1, -1])))
            if p == 1:
                steps.append({"op": "drop", "args": [7]})
                roots = [6, 4, 5, 3]
            if p == 2:
                steps.append({"op": "clear", "args": [1], "how": "replace"})
            if p == 4:
                steps.append({"op": "drop", "args": [5]})
                roots = [6, 4, 3]
        steps += grads_of([1, 2, 3, 4])
        cases.append(steps)
    # a leaf used by many results that are alive at the same time, passes from several of them
    steps = [RESET, leaf(1, [2], [1, 2], trk=True)]
    for i in range(12):
        steps.append(op("scale", [1], 10 + i, c=sc(i - 5)))
    for i in (0, 3, 7, 11, 3):
        steps.append(backward(10 + i))
    steps += grads_of([1])
    cases.append(steps)
    # bigger random programs
    for _ in range(60 if tier == "thorough" else 10):
        cases.append(random_program(rnd, nleaves=(2, 3), nsteps=(25, 45), p_pass=0.15))
    return cases


def c02_large_cases(tier, seed):
    """gradients beyond the exhaustive sizes: dimensions up to 6, rank up to 4"""
    rnd = random.Random(seed)
    cases = []
    n = 900 if tier == "thorough" else 160
    while len(cases) < n:
        r1, r2 = rnd.randint(1, 4), rnd.randint(1, 4)
        a = [rnd.choice([1, 2, 3, 4, 5, 6, 7, 8]) for _ in range(r1)]
        b = [x if rnd.random() < 0.6 else 1 for x in a][-r2:] if rnd.random() < 0.8 else [rnd.choice([1, 4, 5, 7]) for _ in range(r2)]
        od = bdims(a, b)
        if od is None or prod(od) > 300:
            continue
        o = rnd.choice(["add", "mul", "sub", "div", "axpy"])
        trk = rnd.choice(subsets(2))
        vb = [(k % 7) - 3 for k in range(prod(b))] if o != "div" else [(1 if k % 3 else -1) * F(2) ** ((k % 4) - 1) for k in range(prod(b))]
        steps = [RESET, leaf(1, a, [(k % 5) - 2 for k in range(prod(a))], trk=trk[0]), leaf(2, b, vb, trk=trk[1]),
                 op(o, [1, 2], 10, **({"alpha": sc(F(3, 2))} if o == "axpy" else {})),
                 backward(10, seed_tensor(od, k0=len(cases)))]
        cases.append(steps)
    for _ in range(300 if tier == "thorough" else 70):
        r, k, c = rnd.randint(1, 7), rnd.randint(1, 7), rnd.randint(1, 7)
        ta, tb = rnd.random() < 0.5, rnd.random() < 0.5
        lead = rnd.choice([[], [2], [3], [2, 2], [2, 3]])
        da = lead + ([k, r] if ta else [r, k])
        db = rnd.choice([[], lead[-1:]]) + ([c, k] if tb else [k, c])
        dc = rnd.choice([None, [c], [1, c], [r, c], [1]])
        if prod(lead) * r * c > 150:
            continue
        st = FS.mm_case(da, ta, db, tb, dc, trk=(True, True, True))
        st[-1] = op("matmul", [1, 2] + ([3] if dc else []), 10, ta=ta, tb=tb)
        st.append(backward(10, seed_tensor(lead + [r, c], k0=3)))
        cases.append(st)
        d = [rnd.randint(1, 6) for _ in range(rnd.randint(1, 4))]
        if prod(d) <= 300:
            kk = rnd.randint(1, len(d))
            cases.append([RESET, leaf(1, d, [(i % 9) - 4 for i in range(prod(d))], trk=True), op("sum", [1], 10, k=kk),
                          backward(10, seed_tensor(d[:len(d) - kk] + [1], k0=1))])
        ir, ic, fr, fc = rnd.randint(3, 8), rnd.randint(3, 8), rnd.randint(1, 4), rnd.randint(1, 4)
        if fr <= ir and fc <= ic:
            sr, sc_ = rnd.randint(1, 4), rnd.randint(1, 4)
            b = rnd.choice([[], [2], [4]])
            cnt, dp = rnd.randint(1, 3), rnd.randint(1, 2)
            od = b + [cnt, (ir - fr) // sr + 1, (ic - fc) // sc_ + 1]
            st = FS.conv_case(b, dp, ir, ic, cnt, fr, fc, sr, sc_, trk=(True, True))
            st[-1] = op("conv", [1, 2], 10, sr=sr, sc=sc_)
            st.append(backward(10, seed_tensor(od, k0=7)))
            cases.append(st)
    return cases


# ---------------------------------------------------------------------------------------------
# value-dependent corners: zeros, ones, equal elements, tiny magnitudes, repeated values
def special_value_cases(tier, seed):
    rnd = random.Random(seed)
    cases = []
    pats = {"zeros": lambda n: [0] * n, "ones": lambda n: [1] * n, "equal": lambda n: [F(3, 2)] * n,
            "onezero": lambda n: [0 if k == n // 2 else k + 1 for k in range(n)],
            "oneone": lambda n: [1 if k == 0 else -(k + 1) for k in range(n)],
            "tiny": lambda n: [F((-1) ** k, 2 ** 40) for k in range(n)],
            "minus": lambda n: [-1] * n, "mixed0": lambda n: [[0, 1, -1, 2][k % 4] for k in range(n)],
            "rows": lambda n: [[1, 2, 1, 2, 3, 4][k % 6] for k in range(n)]}
    for d in ([3], [2, 2], [2, 3]):
        n = prod(d)
        for pa, fa in pats.items():
            for pb in ("zeros", "ones", "equal", "mixed0", "rows"):
                fb = pats[pb]
                for o in ("add", "mul", "sub", "axpy"):
                    trk = rnd.choice(subsets(2))
                    steps = [RESET, leaf(1, d, fa(n), trk=trk[0]), leaf(2, d if rnd.random() < 0.6 else d[-1:], fb(n)[:n if True else 0][: (n if rnd.random() < 2 else 0)], trk=trk[1])]
                    db = steps[2]["d"]
                    steps[2] = leaf(2, db, fb(prod(db)), trk=trk[1])
                    steps.append(op(o, [1, 2], 10, **({"alpha": sc(-1)} if o == "axpy" else {})))
                    steps.append({"op": "eq", "args": [10, 1]})
                    steps.append(backward(10, seed_tensor(bdims(d, db))))
                    steps += grads_of([1, 2])
                    steps.append({"op": "into_vec", "args": [1]} if not any(trk) else {"op": "clone", "args": [10], "res": 11})
                    cases.append(steps)
            # unary operations on the pattern
            for o, par in (("neg", {}), ("scale", {"c": sc(-1)}), ("scale", {"c": sc(0)}), ("scale", {"c": sc(1)}), ("relu", {}),
                           ("powf", {"p": {"n": 1}}), ("powf", {"p": {"n": 2}}), ("powf", {"p": {"n": 0}}), ("sum", {"k": 1}),
                           ("sum", {"k": len(d)}), ("csq", {"bw": True}), ("reshape", {"d": [n]})):
                if o == "powf" and par["p"]["n"] == 0 and pa in ("zeros", "onezero", "mixed0"):
                    continue        # the derivative of x^0 at 0 is not defined by the formula e * x^(e-1)
                steps = [RESET, leaf(1, d, fa(n), trk=True), op(o, [1], 10, **par), {"op": "sum_all", "args": [10]}]
                od = {"sum": d[:len(d) - par.get("k", 0)] + [1], "reshape": [n]}.get(o, d)
                steps.append(backward(10, seed_tensor(od)))
                steps += grads_of([1])
                cases.append(steps)
            # division by a pattern of +-powers of two, numerator from the pattern
            steps = [RESET, leaf(1, d, fa(n), trk=True), leaf(2, d, [[1, -1, 2, F(1, 2)][k % 4] for k in range(n)], trk=True),
                     op("div", [1, 2], 10), backward(10, seed_tensor(d))]
            cases.append(steps)
            # construction / indexing / equality with repeated values
            steps = [RESET, leaf(1, d, fa(n)), leaf(2, d, fa(n)), leaf(3, d, [v + (F(1, 2 ** 20) if k == n - 1 else 0) for k, v in enumerate(fa(n))]),
                     {"op": "eq", "args": [1, 2]}, {"op": "eq", "args": [1, 3]}, {"op": "nested", "args": [1, 2, 1], "res": 4, "mv": False},
                     {"op": "index", "args": [4], "flat": 3 * n - 1}, {"op": "index", "args": [2], "flat": n - 1},
                     {"op": "index", "args": [3], "flat": n - 1}, {"op": "index", "args": [1], "flat": n - 1}]
            cases.append(steps)
    return cases


# ---------------------------------------------------------------------------------------------
# C12, relational part: a program and its handle-transparent variants must produce bitwise identical values
# and gradients (also in the real domain, where the specification gives no exact number)
def variant_groups(bases, rnd):
    cases = []
    for b in bases:
        cases.append(b)
        cases += variants_of(b, rnd)
    return cases          # groups of three consecutive cases: base, variant 1, variant 2


def relate_variants(res, prog_path, ev_path, workdir):
    """post-processing hook: adds a mismatch (why = "variant-differs") when a variant's recorded digests differ from
    its base program's.  Compared: the digest of the value created by every operation step (matched by result
    handle) and the gradient digests of every handle of the base program after the last pass.  A plain equality of
    recorded observations; no reference values are involved."""
    import json
    by_case = {}
    with open(ev_path) as f:
        for ln in f:
            e = json.loads(ln)
            by_case.setdefault(e["case"], []).append(e)
    bad_cases = {m["case"] for m in res["mismatches"]} | {u["case"] for u in res["unspec"]}

    def signature(evs):
        vals, grads = {}, {}
        for e in evs:
            if "new" in e and "res" in e and e["op"] not in ("clone", "grad"):
                vals[(e["op"], e["res"])] = e["new"]["x"]
            if e["op"] == "backward" and not e.get("panic"):
                grads = {o["h"]: o["gt"]["x"] for o in e["live"] if "gt" in o}
        return vals, grads

    ncmp = 0
    for c in sorted(by_case):
        if c % 3 != 0 or c in bad_cases:
            continue
        bv, bg = signature(by_case[c])
        for k in (1, 2):
            if c + k not in by_case or (c + k) in bad_cases:
                continue
            vv, vg = signature(by_case[c + k])
            ncmp += 1
            diff = [key for key in bv if key in vv and vv[key] != bv[key]] + [h for h in bg if h in vg and vg[h] != bg[h]]
            if diff:
                res["mismatches"].append({"case": c + k, "i": by_case[c + k][-1]["i"], "op": "variant", "why": "variant-differs"})
                res["summary"]["bad"] = res["summary"].get("bad", 0) + 1
    res["summary"]["variants_compared"] = ncmp
    return res


# ---------------------------------------------------------------------------------------------
# matmul with a rank-1 operand next to a rank>=2 operand: every small size, flag, batch and tracked subset
def mm_out_dims(da, ta, db, tb):
    """output dims by the documented rule (a rank-1 operand is the one-row matrix [1, k]); None if not admitted"""
    if len(da) == 1 and len(db) == 1:
        return [1] if (not ta and not tb and da == db) else None
    pa = [1] + da if len(da) == 1 else da
    pb = [1] + db if len(db) == 1 else db
    rows, inner = (pa[-1], pa[-2]) if ta else (pa[-2], pa[-1])
    innerb, cols = (pb[-1], pb[-2]) if tb else (pb[-2], pb[-1])
    if inner != innerb:
        return None
    la, lb = pa[:-2], pb[:-2]
    lead = bdims(la, lb) if (la and lb) else (la or lb)
    if lead is None:
        return None
    return lead + [rows, cols]


def rank1_matmul_cases(tier, seed):
    rnd = random.Random(seed)
    cases = []
    sizes = (1, 2, 3) if tier != "thorough" else (1, 2, 3, 4)
    for k in sizes:
        for c in sizes:
            for lead in ([], [2], [2, 2]):
                for ta in (False, True):
                    for tb in (False, True):
                        forms = [([k], lead + ([c, k] if tb else [k, c])),        # vector x matrix
                                 (lead + ([k, c] if ta else [c, k]), [k]),        # matrix x vector
                                 ([k], lead + [k, 1]), (lead + [1, k], [k]), ([c], lead + [1, k])]
                        for da, db in forms:
                            od = mm_out_dims(da, ta, db, tb)
                            if od is None or (len(da) == 1 and len(db) == 1):
                                continue
                            for trk in ([True, True], [True, False], [False, True]):
                                dc = rnd.choice([None, None, [od[-1]], [1]])
                                st = FS.mm_case(da, ta, db, tb, dc, trk=trk + [True])
                                st[-1] = op("matmul", [1, 2] + ([3] if dc else []), 10, ta=ta, tb=tb)
                                st.append(backward(10, seed_tensor(od, k0=k + c)))
                                cases.append(st)
    if tier != "thorough" and len(cases) > 700:
        cases = rnd.sample(cases, 700)
    return cases


# ---------------------------------------------------------------------------------------------
# the same array at several operand positions, and expressions that cancel or repeat (x / x, a - a, a x a^T, ...)
def self_operand_cases(tier, seed):
    rnd = random.Random(seed)
    cases = []
    for d in ([2], [3], [2, 2], [2, 3]):
        n = prod(d)
        pw = [(1 if k % 3 else -1) * F(2) ** ((k % 3) - 1) for k in range(n)]
        mixed = [F((k % 5) - 2, 1 << (k % 2)) if (k % 5) != 2 else 3 for k in range(n)]
        progs = [
            ("div_self", pw, [op("div", [1, 1], 10)]),
            ("sub_self", mixed, [op("sub", [1, 1], 10)]),
            ("mul_self", mixed, [op("mul", [1, 1], 10)]),
            ("add_self", mixed, [op("add", [1, 1], 10)]),
            ("axpy_self", mixed, [op("axpy", [1, 1], 10, alpha=sc(0))]),
            ("axpy_one", mixed, [op("axpy", [1, 1], 10, alpha=sc(1))]),
            ("neg_neg", mixed, [op("neg", [1], 9), op("neg", [9], 10)]),
            ("relu_and_direct", mixed, [op("relu", [1], 9), op("mul", [9, 1], 10)]),
            ("scale_one", mixed, [op("scale", [1], 9, c=sc(1)), op("mul", [9, 1], 10)]),
            ("powf_one", mixed, [op("powf", [1], 9, p={"n": 1}), op("add", [9, 1], 10)]),
            ("sub_shared", mixed, [op("mul", [1, 1], 8), op("sub", [8, 1], 9), op("sub", [1, 9], 10)]),
            ("div_num_also_den", pw, [op("mul", [1, 1], 9), op("div", [9, 1], 10)]),
            ("reshape_twice", mixed, [op("reshape", [1], 8, d=[n]), op("reshape", [8], 9, d=[1, n]), op("reshape", [9], 10, d=d)]),
            ("sum_reshape_back", mixed, [op("sum", [1], 9, k=len(d)), op("add", [9, 1], 10)]),
            ("two_consumers_two_passes", mixed, [op("mul", [1, 1], 9), op("neg", [9], 10), op("scale", [9], 11, c=sc(3))]),
            # an array against a reshaped view of itself (they share the value buffer) under broadcasting
            ("mul_view_col", mixed, [op("reshape", [1], 8, d=[n, 1]), op("reshape", [1], 9, d=[n]), op("mul", [9, 8], 10)]),
            ("mul_view_row", mixed, [op("reshape", [1], 8, d=[1, n]), op("reshape", [1], 9, d=[n, 1]), op("mul", [8, 9], 10)]),
            ("add_view_col", mixed, [op("reshape", [1], 8, d=[n, 1]), op("reshape", [1], 9, d=[n]), op("add", [8, 9], 10)]),
            ("div_view_col", pw, [op("reshape", [1], 8, d=[n, 1]), op("reshape", [1], 9, d=[n]), op("div", [9, 8], 10)]),
        ]
        if len(d) == 2:
            progs.append(("matmul_self_t", mixed, [op("matmul", [1, 1], 10, ta=False, tb=True)]))
            progs.append(("matmul_self_t2", mixed, [op("matmul", [1, 1], 10, ta=True, tb=False)]))
        for name, vals, ops in progs:
            steps = [RESET, leaf(1, d, vals, trk=True)] + ops
            od = {"matmul_self_t": [d[0], d[0]], "matmul_self_t2": [d[-1], d[-1]], "mul_view_col": [n, n], "mul_view_row": [n, n],
                  "add_view_col": [n, n], "div_view_col": [n, n]}.get(name, d)
            steps.append(backward(10, seed_tensor(od, k0=2)))
            if name == "two_consumers_two_passes":
                steps.append(backward(11, seed_tensor(d, k0=5)))
                steps.append(backward(9))
            steps += grads_of([1])
            cases.append(steps)
    return cases


# ---------------------------------------------------------------------------------------------
# which handle decides whether an interior node stores its gradient: flags set on a result or on a clone of it,
# before or after it is used, passes started from either handle
def keep_flag_cases(tier, seed):
    cases = []
    flagops = [None, "untracked", "stop", "tracked", "start"]
    for on_clone_first in flagops:
        for on_orig_then in flagops:
            for use in ("root_orig", "root_clone", "operand_orig", "operand_clone", "operand_both"):
                for when in ("before_use", "after_use"):
                    steps = [RESET, leaf(1, [2], [2, -3], trk=True), leaf(2, [2], [1, 4], trk=True),
                             op("mul", [1, 2], 3), {"op": "clone", "args": [3], "res": 4}]
                    flips = []
                    if on_clone_first:
                        flips.append({"op": on_clone_first, "args": [4]})
                    if on_orig_then:
                        flips.append({"op": on_orig_then, "args": [3]})
                    if when == "before_use":
                        steps += flips
                    root = None
                    if use == "root_orig":
                        root = 3
                    elif use == "root_clone":
                        root = 4
                    else:
                        a = {"operand_orig": [3, 1], "operand_clone": [4, 1], "operand_both": [3, 4]}[use]
                        steps.append(op("add", a, 5))
                        root = 5
                    if when == "after_use":
                        steps += flips
                    steps.append(backward(root, seed_tensor([2])))
                    steps += [{"op": "grad", "args": [3], "res": 90}, {"op": "grad", "args": [4], "res": 91}, {"op": "grad", "args": [1], "res": 92}]
                    steps.append(backward(root))
                    cases.append(steps)
    # a clone taken AFTER the original's flags were changed, and flag changes on a fresh clone AFTER a pass
    for first in ("stop", "untracked", "start", "tracked"):
        for second in (None, "start", "tracked", "stop", "untracked"):
            for use in ("root_clone", "operand_clone", "root_orig"):
                steps = [RESET, leaf(1, [2], [2, -3], trk=True), leaf(2, [2], [1, 4], trk=True), op("mul", [1, 2], 3),
                         {"op": first, "args": [3]}, {"op": "clone", "args": [3], "res": 4}]
                if second:
                    steps.append({"op": second, "args": [4]})
                if use == "operand_clone":
                    steps.append(op("add", [4, 1], 5))
                root = {"root_clone": 4, "operand_clone": 5, "root_orig": 3}[use]
                steps.append(backward(root, seed_tensor([2])))
                steps += [{"op": "grad", "args": [3], "res": 90}, {"op": "grad", "args": [4], "res": 91}]
                # after the pass: flags on a fresh clone must not disturb the stored gradients
                steps += [{"op": "clone", "args": [3], "res": 6}, {"op": "untracked" if first != "untracked" else "tracked", "args": [6]},
                          {"op": "clone", "args": [1], "res": 7}, {"op": "untracked", "args": [7]},
                          {"op": "grad", "args": [3], "res": 93}, {"op": "grad", "args": [1], "res": 94}]
                steps.append(backward(root))
                cases.append(steps)
    return cases
