"""Scenario families for the derivative / engine properties (C01 - C03, C09 - C12, C17, C18, C08)."""
import random
from fractions import Fraction as F

from progs import *
import fam_shapes as FS


def seed_tensor(d, k0=0, signed=True):
    """non-uniform seed: distinct small primes by position (a transposed, dropped or overwritten
    contribution changes the result)"""
    n = prod(d)
    vals = [PRIMES[(k0 + k) % len(PRIMES)] * (-1 if signed and k % 4 == 3 else 1) for k in range(n)]
    return tensor(d, vals)


def subsets(n):
    return [[bool(m >> i & 1) for i in range(n)] for m in range(1, 1 << n)]


def grads_of(hs):
    return [{"op": "grad", "args": [h], "res": 90 + k} for k, h in enumerate(hs)]


# ---------------------------------------------------------------------------------------------
# C02: every operation alone, every parameterisation, every tracked subset of its operands
def c02_cases(tier, seed):
    rnd = random.Random(seed)
    thorough = tier == "thorough"
    cases = []

    def finish(steps, res_dims, out=10, k0=0):
        steps.append(backward(out, seed_tensor(res_dims, k0)))
        return steps

    # element-wise operations over broadcast pairs
    sh = shapes(3, 3)
    pairs = [(a, b) for a in sh for b in sh if bdims(a, b)]
    if not thorough:
        pairs = rnd.sample(pairs, 260)
    for a, b in pairs:
        od = bdims(a, b)
        na, nb = prod(a), prod(b)
        for o in ("add", "sub", "mul", "div", "axpy"):
            for trk in (subsets(2) if thorough else [rnd.choice(subsets(2))]):
                va = [(k % 5) - 2 if o != "div" else k + 1 for k in range(na)]
                vb = [(k % 7) - 3 for k in range(nb)] if o != "div" else \
                    [(1 if k % 3 else -1) * F(2) ** ((k % 4) - 1) for k in range(nb)]
                steps = [RESET, leaf(1, a, va, trk=trk[0]), leaf(2, b, vb, trk=trk[1])]
                par = {"alpha": sc(F(-3, 2))} if o == "axpy" else {}
                steps.append(op(o, [1, 2], 10, **par))
                cases.append(finish(steps, od, k0=na))
    # unary operations
    for d in (shapes(3, 3) if thorough else rnd.sample(shapes(4, 3), 40)):
        n = prod(d)
        mixed = [F((k % 7) - 3, 1 << (k % 2)) if (k % 7) != 3 else F(5, 2) for k in range(n)]   # no zeros (relu')
        pw = [(1 if k % 3 else -1) * F(2) ** ((k % 5) - 2) for k in range(n)]
        un = [("neg", {}, mixed), ("scale", {"c": sc(F(-3, 2))}, mixed), ("scale_l", {"c": sc(3)}, mixed),
              ("relu", {}, mixed), ("recip", {}, pw), ("csq", {"bw": True}, mixed)]
        for p in (0, 1, 2, 3, 4):
            un.append(("powf", {"p": {"n": p}}, [v if abs(v) < 3 else v / 2 for v in mixed]))
        for p in (-1, -2):
            un.append(("powf", {"p": {"n": p}}, pw))
        for name, par, vals in un:
            steps = [RESET, leaf(1, d, vals, trk=True), op(name, [1], 10, **par)]
            cases.append(finish(steps, d, k0=3))
        for k in range(1, len(d) + 1):
            steps = [RESET, leaf(1, d, mixed, trk=True), op("sum", [1], 10, k=k)]
            cases.append(finish(steps, d[:len(d) - k] + [1], k0=k))
        for t in rnd.sample(FS.factorizations(n), min(3, len(FS.factorizations(n)))):
            steps = [RESET, leaf(1, d, mixed, trk=True), op("reshape", [1], 10, d=t)]
            cases.append(finish(steps, t))
    # matmul: sizes x flags x additive forms x leading patterns x tracked subsets
    space = FS.c05_space()
    for (da, ta, db, tb, dc) in rnd.sample(space, 6000 if thorough else 500):
        if dc is not None and dc[-1] != (db[-2] if tb else db[-1]):
            continue       # refused additive terms belong to C05
        if dc is not None and len(dc) == 2 and dc[0] not in (1, da[-1] if ta else da[-2]):
            continue
        la, lb = da[:-2], db[:-2]
        lead = bdims(la, lb) if (la and lb) else (la or lb)
        if lead is None:
            continue
        od = lead + [da[-1] if ta else da[-2], db[-2] if tb else db[-1]]
        trk = rnd.choice(subsets(3 if dc is not None else 2)) + [False]
        cases.append(finish(FS.mm_case(da, ta, db, tb, dc, trk=trk[:3])[:-1] +
                            [op("matmul", [1, 2] + ([3] if dc is not None else []), 10, ta=ta, tb=tb)], od, k0=1))
    # rank-1 forms
    for k in (1, 2, 3):
        for c in (1, 2, 3):
            cases.append(finish(FS.mm_case([k], False, [c, k], True, [c], trk=(True, True, True))[:-1] +
                                [op("matmul", [1, 2, 3], 10, ta=False, tb=True)], [1, c]))
            cases.append(finish(FS.mm_case([2, c, k], False, [k], True, None, trk=(True, True, False))[:-1] +
                                [op("matmul", [1, 2], 10, ta=False, tb=True)], [2, c, 1]))
        cases.append(finish(FS.mm_case([k], False, [k], False, None, trk=(True, True, False))[:-1] +
                            [op("matmul", [1, 2], 10, ta=False, tb=False)], [1]))
    # conv: overlapping / non-overlapping / non-dividing strides, batches, both operands
    cspace = [p for p in FS.c06_space() if p[2] <= 4 and p[3] <= 4] if not thorough else FS.c06_space()
    for p in rnd.sample(cspace, 3000 if thorough else 400):
        batch, depth, ir, ic, cnt, fr, fc, sr, sc_ = p
        od = batch + [cnt, (ir - fr) // sr + 1, (ic - fc) // sc_ + 1]
        trk = rnd.choice(subsets(2))
        steps = FS.conv_case(*p, trk=trk)
        steps[-1] = op("conv", [1, 2], 10, sr=sr, sc=sc_)
        cases.append(finish(steps, od, k0=2))
    # user operations through Array::op
    for d in rnd.sample(shapes(3, 3), 12):
        n = prod(d)
        for name, ar in (("cadd", 2), ("cmul", 2), ("cfma", 3)):
            for trk in subsets(ar):
                steps = [RESET] + [leaf(1 + j, d, [(k * (j + 2)) % 7 - 3 for k in range(n)], trk=trk[j]) for j in range(ar)]
                steps.append(op(name, list(range(1, ar + 1)), 10, bw=True))
                cases.append(finish(steps, d, k0=5))
    return cases
