"""Term interpreter for the real domain.

TLC (spec/TraceReal.tla) prints, in event order,
   <<"EV", case, i>>      the event being judged
   <<"BIND", json>>       y[n] := value observed for the handle created by this event
   <<"DEF", json>>        a[n] := terms (adjoint of node n in the running pass)
   <<"CHK", json>>        observed bit patterns hx + defining terms v
This module evaluates the terms in f64, carrying a magnitude bound for a cancellation-aware
tolerance of TOL_ULPS (16) units in the last place of the magnitude, and reports the CHKs that fail.
It contains no derivative rule and no tensor index arithmetic: those are in the TLA+ modules.
"""
import json
import math
import struct

TOL_ULPS = 16.0


def unhex(s):
    if len(s) == 8:
        return struct.unpack("<f", struct.pack("<I", int(s, 16)))[0]
    return struct.unpack("<d", struct.pack("<Q", int(s, 16)))[0]


class Env:
    def __init__(self, lo=1e-300, hi=1e300):
        self.y = {}
        self.a = {}
        self.lo, self.hi = lo, hi
        self.out_of_range = False     # some intermediate term left the normal range of the float format under test


def ev(t, env):
    """returns (value, magnitude); notes in env when an intermediate value leaves the representable range"""
    v, m = ev0(t, env)
    if isinstance(v, float) and (abs(v) > env.hi or v != v):
        env.out_of_range = True
    elif isinstance(v, float) and v != 0 and abs(v) < env.lo and t["t"] not in ("c", "hx", "y"):
        # a COMPUTED intermediate in the subnormal range has lost precision; an operand that merely IS a subnormal
        # number (a constant of the program or an observed operand value) is exact
        env.out_of_range = True
    return v, m


def ev0(t, env):
    k = t["t"]
    if k == "c":
        v = t["m"] * 2.0 ** (-t["e"])
        return v, abs(v)
    if k == "hx":
        v = unhex(t["h"])
        return v, abs(v)
    if k == "y":
        v = env.y[t["n"]][t["i"] - 1]
        return v, abs(v)
    if k == "a":
        v, m, bad = env.a[t["n"]][t["i"] - 1]
        if bad:
            env.out_of_range = True
        return v, m
    if k == "add":
        a, ma = ev(t["a"], env)
        b, mb = ev(t["b"], env)
        return a + b, ma + mb
    if k == "mul":
        a, ma = ev(t["a"], env)
        b, mb = ev(t["b"], env)
        return a * b, ma * mb
    if k == "neg":
        a, ma = ev(t["a"], env)
        return -a, ma
    if k == "div":
        a, ma = ev(t["a"], env)
        b, mb = ev(t["b"], env)
        if b == 0:
            return float("nan"), float("inf")
        rel = mb / abs(b)          # >= 1; how ill-conditioned the divisor is
        return a / b, (ma / abs(b)) * rel
    if k == "fn":
        a, ma = ev(t["a"], env)
        f = t["f"]
        try:
            if f == "exp":
                v = math.exp(a)
                return v, v * (1.0 + ma)
            if f == "ln":
                v = math.log(a)
                return v, abs(v) + ma / abs(a)
            if f == "sigmoid":
                v = 1.0 / (1.0 + math.exp(-a))
                return v, v * (1.0 + ma)
            if f == "relu":
                return (a if a > 0 else 0.0), ma
            if f == "step":
                return (1.0 if a > 0 else 0.0), 1.0
        except (ValueError, OverflowError, ZeroDivisionError):
            return float("nan"), float("inf")
        raise ValueError("unknown function " + f)
    if k in ("pow", "dpow"):
        a, ma = ev(t["a"], env)
        p = t["p"]
        e = float(p["n"]) if "n" in p else unhex(p["hx"])
        try:
            if k == "pow":
                v = a ** e
                if isinstance(v, complex):
                    return float("nan"), float("inf")
                return v, abs(v) * (1.0 + abs(e) * ((ma / abs(a) - 1.0) if a != 0 else 1.0))
            v = e * a ** (e - 1.0)
            if isinstance(v, complex):
                return float("nan"), float("inf")
            return v, abs(v) * (1.0 + abs(e - 1.0) * ((ma / abs(a) - 1.0) if a != 0 else 1.0))
        except (ValueError, OverflowError, ZeroDivisionError):
            return float("nan"), float("inf")
    raise ValueError("unknown term " + k)


def judge(stdout_lines, events_by_key, f32=False):
    """events_by_key: (case, i) -> event dict. Returns (mismatches, stats)."""
    eps = 2.0 ** -23 if f32 else 2.0 ** -52
    lo, hi = (1e-37, 1e38) if f32 else (1e-300, 1e300)
    env = Env(lo, hi)
    cur = None
    cur_case = None
    bad = {}
    stats = {"real_checked": 0, "real_worst_ulps": 0.0, "real_unevaluable": 0}
    for ln in stdout_lines:
        if ln.startswith('<<"EV", '):
            parts = ln[2:-2].split(", ")
            cur = (int(parts[1]), int(parts[2]))
            if cur[0] != cur_case:
                cur_case = cur[0]
                env = Env(lo, hi)
            continue
        if ln.startswith('<<"BIND", "'):
            d = json.loads(json.loads(ln[len('<<"BIND", '):-2]))
            e = events_by_key[cur]
            env.y[d["n"]] = [unhex(h) for h in e["new"]["hx"]]
            continue
        if ln.startswith('<<"DEF", "'):
            d = json.loads(json.loads(ln[len('<<"DEF", '):-2]))
            vals = []
            for t in d["v"]:
                env.out_of_range = False
                v, m = ev(t, env)
                vals.append((v, m, env.out_of_range))
            env.a[d["n"]] = vals
            continue
        if ln.startswith('<<"CHK", "'):
            d = json.loads(json.loads(ln[len('<<"CHK", '):-2]))
            if len(d["hx"]) != len(d["v"]):
                bad.setdefault(cur, "real-length")
                continue
            for h, t in zip(d["hx"], d["v"]):
                o = unhex(h)
                env.out_of_range = False
                e, m = ev(t, env)
                stats["real_checked"] += 1
                if math.isnan(e) or math.isinf(m) or math.isinf(e):
                    stats["real_unevaluable"] += 1     # outside the function's domain: not judged
                    continue
                if env.out_of_range or (e != 0 and abs(e) < lo) or abs(e) > hi or m > hi:
                    stats["real_unevaluable"] += 1     # a term under- or overflows the float format: "rounding
                    continue                           # of the terms involved" says nothing here - not judged
                tol = TOL_ULPS * eps * max(m, abs(e), 1e-300)
                err = abs(e - o) if not math.isnan(o) else float("inf")
                if err > tol:
                    bad.setdefault(cur, "real-value")
                else:
                    stats["real_worst_ulps"] = max(stats["real_worst_ulps"], err / (eps * max(m, abs(e), 1e-300)))
    # softmax rows (C07: "every last-dimension row is non-negative and sums to one"): decided from the recorded input
    # and output alone, also where the exponentials are subnormal and the term-based comparison above does not judge.
    # In domain = every exp(x) of the row is a positive number of the format and their sum is finite (with margins).
    xlo, shi = (-100.0, 1e37) if f32 else (-740.0, 1e307)
    known = {}
    for (c, i) in sorted(events_by_key):
        e = events_by_key[(c, i)]
        if e.get("op") == "reset":
            known = {}
        vals = e.get("new", {}).get("hx") if isinstance(e.get("new"), dict) else None
        if e.get("op") == "softmax" and not e.get("panic") and vals is not None and e["args"][0] in known and (c, i) not in bad:
            xs = known[e["args"][0]]
            ys = [unhex(h) for h in vals]
            n = e["new"]["d"][-1]
            if len(xs) == len(ys):
                for r in range(len(ys) // n):
                    xr, yr = xs[r * n:(r + 1) * n], ys[r * n:(r + 1) * n]
                    try:
                        tot = sum(math.exp(x) for x in xr)
                    except OverflowError:
                        continue
                    if any(math.isnan(x) or math.isinf(x) or x < xlo for x in xr) or not tot < shi:
                        continue
                    stats["real_checked"] += 1
                    if any(math.isnan(y) or math.isinf(y) or y < 0 for y in yr) or abs(sum(yr) - 1.0) > 8 * n * eps:
                        bad.setdefault((c, i), "real-value")
        if "res" in e and vals is not None:
            known[e["res"]] = [unhex(h) for h in vals]
    mism = [{"case": c, "i": i, "op": events_by_key[(c, i)]["op"], "why": why} for (c, i), why in sorted(bad.items())]
    return mism, stats
