SPECIFICATION Spec
CONSTANTS
  MaxLen = 3
  MaxOps = 3
  MaxPasses = 0
  Ops = {"add", "mul", "neg"}
  Acts = {"op"}
  LeafDims <- LD_bcast
INVARIANTS SeedLinear
CHECK_DEADLOCK FALSE
