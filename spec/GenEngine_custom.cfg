SPECIFICATION Spec
CONSTANTS
  MaxLen = 3
  MaxOps = 2
  MaxPasses = 1
  Ops = {"cmul", "cfma"}
  Acts = {"op", "backward"}
  LeafDims <- LD_scalar
INVARIANT Emit
CHECK_DEADLOCK FALSE
