SPECIFICATION Spec
CONSTANTS
  MaxLen = 3
  MaxOps = 2
  MaxPasses = 1
  Ops = {"add", "mul"}
  Acts = {"op", "backward"}
  LeafDims <- LD_bcast
INVARIANT Emit
CHECK_DEADLOCK FALSE
