----------------------------- MODULE MC_Kernels -----------------------------
(***************************************************************************)
(* Bounded instances of KernelImpl: every call within the bounds is one    *)
(* initial state; TLC runs the loops and checks, when a run is done or     *)
(* refused, that it agrees with the definition in TensorCore:              *)
(*   KernelRefines   result (dims and every element) = definition          *)
(*   RefusesExactly  refused  <=>  the definition refuses (for matmul:     *)
(*                   where the property defines the form at all)           *)
(*   Terminates      every run reaches done / refused (deadlock-free run   *)
(*                   to completion; checked as a liveness property under   *)
(*                   weak fairness in the quick configuration)             *)
(***************************************************************************)
EXTENDS Dyadic, Sequences, FiniteSets, TLC

CONSTANTS MaxRank, MaxSize, MatSizes, Variant

VARIABLES cs, pc, plan, idx, k, out
vars == <<cs, pc, plan, idx, k, out>>

K == INSTANCE KernelImpl WITH SAdd <- DAdd, SMul <- DMul, SNeg <- DNeg, SDiv <- DDiv, SFn <- DFn,
                              SPow <- DPow, SDPow <- DDPow, SZero <- DZero, SOne <- DOne

RECURSIVE ShapesOfRank(_)
ShapesOfRank(r) == IF r = 0 THEN {<<>>} ELSE { <<x>> \o t : x \in 1..MaxSize, t \in ShapesOfRank(r - 1) }
Shapes == UNION { ShapesOfRank(r) : r \in 1..MaxRank }

Val(n, e) == LET x == ((7 * n + 3 * e) % 9) - 4 IN IF x = 0 THEN 5 ELSE x
IntT(n, d) == [d |-> d, v |-> [e \in 1..K!Prod(d) |-> DInt(Val(n, e))]]

Leads == {<<>>, <<2>>, <<1>>, <<3>>, <<2, 1>>, <<1, 2>>, <<2, 3>>}
TermDims(r, c, cf) == IF cf = 1 THEN <<c>> ELSE IF cf = 2 THEN <<r, c>> ELSE IF cf = 3 THEN <<1, c>> ELSE IF cf = 4 THEN <<1>>
                      ELSE IF cf = 5 THEN <<c + 1>> ELSE <<r + 1, c>>
Cases ==
       { [kind |-> "ew", f |-> f, ts |-> <<IntT(1, a), IntT(2, b)>>] : f \in {"add", "mul"}, a \in Shapes, b \in Shapes }
  \cup { [kind |-> "sum", k |-> kk, ts |-> <<IntT(1, a)>>] : a \in Shapes, kk \in 1..MaxRank }
  \cup { [kind |-> "spread", k |-> kk, d |-> a, ts |-> <<IntT(3, K!SumKDims(a, kk))>>] : a \in Shapes, kk \in 1..MaxRank }
  \cup { [kind |-> "flatten", d |-> b, ts |-> <<IntT(1, a)>>] : a \in Shapes, b \in Shapes }
  \cup { [kind |-> "matmul", ta |-> ta, tb |-> tb,
          ts |-> <<IntT(1, la \o (IF ta THEN <<n, r>> ELSE <<r, n>>)), IntT(2, lb \o (IF tb THEN <<c, n>> ELSE <<n, c>>))>>
                 \o (IF cf = 0 THEN <<>> ELSE <<IntT(3, TermDims(r, c, cf))>>)] :
           r \in MatSizes, n \in MatSizes, c \in MatSizes, ta \in BOOLEAN, tb \in BOOLEAN, la \in Leads, lb \in Leads, cf \in 0..6 }
  \cup { [kind |-> "matmul", ta |-> ta, tb |-> tb,
          ts |-> <<IntT(1, <<r, n>>), IntT(2, <<n + 1, c>>)>>] : r \in MatSizes, n \in MatSizes, c \in MatSizes, ta \in BOOLEAN, tb \in BOOLEAN }
  \cup { [kind |-> "matmul", ta |-> FALSE, tb |-> tb, ts |-> <<IntT(1, <<n>>), IntT(2, lb \o (IF tb THEN <<c, n>> ELSE <<n, c>>))>>] :
           n \in MatSizes, c \in MatSizes, tb \in BOOLEAN, lb \in {<<>>, <<2>>} }
  \cup { [kind |-> "matmul", ta |-> ta, tb |-> TRUE, ts |-> <<IntT(1, lb \o (IF ta THEN <<n, c>> ELSE <<c, n>>)), IntT(2, <<n>>)>>] :
           n \in MatSizes, c \in MatSizes, ta \in BOOLEAN, lb \in {<<>>, <<2>>} }
  \cup { [kind |-> "matmul", ta |-> FALSE, tb |-> FALSE, ts |-> <<IntT(1, <<n>>), IntT(2, <<n>>)>> \o (IF cf = 0 THEN <<>> ELSE <<IntT(3, <<1>>)>>)] :
           n \in MatSizes, cf \in 0..1 }

Admitted(c) ==
  CASE c.kind = "sum" -> c.k <= Len(c.ts[1].d)
    [] c.kind = "spread" -> c.k <= Len(c.d)
    [] c.kind = "flatten" -> K!BroadcastsTo(c.d, c.ts[1].d)
    [] OTHER -> TRUE

Init == K!KInit({ c \in Cases : Admitted(c) })
Next == K!KNext
Spec == Init /\ [][Next]_vars
FairSpec == Spec /\ WF_vars(Next)

\* ---- what the definition says about the call
TermOf(c) == IF Len(c.ts) = 3 THEN c.ts[3] ELSE K!NoTerm
DefStatus(c) ==
  CASE c.kind = "ew" -> IF K!BOK(c.ts[1].d, c.ts[2].d) THEN "ok" ELSE "refuse"
    [] c.kind = "matmul" -> LET st == K!MatmulShape(c.ts[1].d, c.ta, c.ts[2].d, c.tb, TermOf(c)).st IN IF st = "dot" THEN "ok" ELSE st
    [] OTHER -> "ok"
DefResult(c) ==
  CASE c.kind = "ew" -> IF c.f = "add" THEN K!Add(c.ts[1], c.ts[2]) ELSE K!Mul(c.ts[1], c.ts[2])
    [] c.kind = "sum" -> K!SumK(c.ts[1], c.k)
    [] c.kind = "spread" -> K!VjpDef("sum", [k |-> c.k], <<IntT(1, c.d)>>, 1, c.ts[1])
    [] c.kind = "flatten" -> K!ReduceTo(c.ts[1], c.d)
    [] c.kind = "matmul" -> K!Matmul(c.ts[1], c.ta, c.ts[2], c.tb, TermOf(c))

KernelRefines == (pc = "done" /\ DefStatus(cs) = "ok") => K!Result = DefResult(cs)
RefusesExactly == /\ (pc = "refused" /\ DefStatus(cs) # "unspec") => DefStatus(cs) = "refuse"
                  /\ (pc = "done" /\ DefStatus(cs) # "unspec") => DefStatus(cs) = "ok"
Terminates == <>(pc \in {"done", "refused"})
TypeOK == /\ pc \in {"begin", "run", "done", "refused"}
          /\ k \in Nat
=============================================================================
