SPECIFICATION Spec
CONSTANTS Iters = 3
INVARIANTS StepExact PreviousReleased NoStaleGradient ParamsTracked
CHECK_DEADLOCK FALSE
