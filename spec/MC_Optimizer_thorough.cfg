SPECIFICATION Spec
CONSTANTS MaxParams = 3
INVARIANTS UpdateRefines UpdateExact
CHECK_DEADLOCK FALSE
