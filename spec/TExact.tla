------------------------------- MODULE TExact -------------------------------
(* TensorCore instantiated with exact dyadic scalars. *)
EXTENDS Dyadic
INSTANCE TensorCore WITH SAdd <- DAdd, SMul <- DMul, SNeg <- DNeg, SDiv <- DDiv,
                         SFn <- DFn, SPow <- DPow, SDPow <- DDPow, SZero <- DZero, SOne <- DOne
=============================================================================
