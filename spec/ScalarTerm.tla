----------------------------- MODULE ScalarTerm -----------------------------
(***************************************************************************)
(* Symbolic scalar domain: scalars are terms.  TLC cannot compute with     *)
(* reals, so for transcendental operations the specification is evaluated  *)
(* over terms and emits, for every value it would compare, the DEFINING    *)
(* TERM of that value over symbols that stand for observed operand values. *)
(* A small interpreter outside TLC evaluates the terms in floating point   *)
(* and compares with a magnitude-scaled tolerance.  All derivative rules   *)
(* and all tensor index arithmetic stay in TLA+ (TensorCore).              *)
(*   constants   [t |-> "c", m, e]   dyadic m * 2^-e                       *)
(*               [t |-> "hx", h]     IEEE bit pattern (hex string)         *)
(*   symbols     [t |-> "y", n, i]   element i of the observed value of    *)
(*                                   node n;  [t |-> "a", n, i] adjoint    *)
(***************************************************************************)
EXTENDS Naturals, Integers, Sequences

KC(m, e) == [t |-> "c", m |-> m, e |-> e]
KZero == KC(0, 0)
KOne == KC(1, 0)
KAdd(a, b) == IF a = KZero THEN b ELSE IF b = KZero THEN a ELSE [t |-> "add", a |-> a, b |-> b]
KMul(a, b) == IF a = KZero \/ b = KZero THEN KZero
              ELSE IF a = KOne THEN b ELSE IF b = KOne THEN a ELSE [t |-> "mul", a |-> a, b |-> b]
KNeg(a) == IF a = KZero THEN KZero ELSE [t |-> "neg", a |-> a]
KDiv(a, b) == IF a = KZero THEN KZero ELSE [t |-> "div", a |-> a, b |-> b]
KFn(name, a) == [t |-> "fn", f |-> name, a |-> a]
KPow(a, p) == [t |-> "pow", a |-> a, p |-> p]
KDPow(a, p) == [t |-> "dpow", a |-> a, p |-> p]
=============================================================================
