------------------------------ MODULE ModelAbs ------------------------------
(***************************************************************************)
(* Layers, costs and the model loop (C14, C15) on top of AutodiffAbs.      *)
(*   S.layers : layer id -> [kind, ph, act, sr, sc]   ph = parameter       *)
(*              handles in parameters() order                              *)
(*   S.model  : [on, layers, lr, cost]; the retained output is the hidden  *)
(*              handle 0 of S.hd                                           *)
(* Written from the documented formulas:                                   *)
(*   dense  = activation(x W^T + b)                                        *)
(*   conv   = activation(conv(x, filters, stride) + b), one bias/filter    *)
(*   model.forward = composition of the layers; it retains its output      *)
(*   model.backward(target) = backward pass on cost(output, target),       *)
(*                            returns the sum of the cost array            *)
(*   model.update = one gradient-descent step over all parameters          *)
(***************************************************************************)
EXTENDS Naturals, Integers, Sequences, FiniteSets, TLC

CONSTANTS SAdd(_,_), SMul(_,_), SNeg(_), SDiv(_,_), SFn(_,_), SPow(_,_), SDPow(_,_), SZero, SOne, AdjCanon(_,_)

INSTANCE AutodiffAbs

OutH == 0          \* hidden handle: Model.output
TmpA == -1         \* temporaries of composite steps
TmpB == -2

DenseDimsOK(in, out, W, b) == W.d = <<out, in>> /\ b.d = <<out>>
ConvDimsOK(fd, F, b) == F.d = fd /\ b.d = <<fd[1], 1, 1>>

\* parameters are fresh tracked leaves owned by the layer
NewLayer(S, L, rec, ts, uid) ==
  LET S1 == NewLeaf(S, rec.ph[1], ts[1], TRUE, uid)
      S2 == NewLeaf(S1, rec.ph[2], ts[2], TRUE, uid)
  IN [S2 EXCEPT !.layers = FnPut(S.layers, L, rec)]

Activate(S, act, h, res, uid) ==
  IF act = "none" THEN Drop(Clone(S, h, res), h)
  ELSE Drop(Apply(S, act, <<>>, <<h>>, res, uid), h)

\* status of a layer's forward on input handle x: "ok" | "refuse" | "unspec"
LayerStatus(S, L, x) ==
  LET ly == S.layers[L] IN
  IF ly.kind = "dense" THEN ApplyStatus(S, "matmul", [ta |-> FALSE, tb |-> TRUE], <<x, ly.ph[1], ly.ph[2]>>)
  ELSE LET st == ApplyStatus(S, "conv", [sr |-> ly.sr, sc |-> ly.sc], <<x, ly.ph[1]>>) IN
       IF st # "ok" THEN st
       ELSE LET od == ConvShape(HandleT(S, x).d, HandleT(S, ly.ph[1]).d, ly.sr, ly.sc).od
            IN IF BOK(od, HandleT(S, ly.ph[2]).d) THEN "ok" ELSE "refuse"

\* the layer's forward: result on handle res; x stays live
LayerForward(S, L, x, res, uid) ==
  LET ly == S.layers[L] IN
  IF ly.kind = "dense" THEN
     Activate(Apply(S, "matmul", [ta |-> FALSE, tb |-> TRUE], <<x, ly.ph[1], ly.ph[2]>>, TmpA, uid),
              ly.act, TmpA, res, uid)
  ELSE
     LET S1 == Apply(S, "conv", [sr |-> ly.sr, sc |-> ly.sc], <<x, ly.ph[1]>>, TmpA, uid)
         S2 == Drop(Apply(S1, "add", <<>>, <<TmpA, ly.ph[2]>>, TmpB, uid), TmpA)
     IN Activate(S2, ly.act, TmpB, res, uid)

\* composition of the layers in order; [st, S, h]
RECURSIVE Chain(_,_,_,_,_)
Chain(S, ls, k, cur, uid) ==
  IF ls = <<>> THEN [st |-> "ok", S |-> S, h |-> cur]
  ELSE LET st == LayerStatus(S, Head(ls), cur) IN
       IF st # "ok" THEN [st |-> st, S |-> S, h |-> cur]
       ELSE Strict(Drop(LayerForward(S, Head(ls), cur, -10 - k, uid), cur),
                   LAMBDA S2 : Chain(S2, Tail(ls), k + 1, -10 - k, uid))

\* the model retains a clone of its output (hidden handle OutH), replacing the previous one
ModelForward(S, x, res, uid) ==
  LET r == Chain(Clone(S, x, -9), S.model.layers, 0, -9, uid) IN
  IF r.st # "ok" THEN [st |-> r.st, S |-> S]
  ELSE [st |-> "ok", S |-> Drop(Clone(Clone(r.S, r.h, res), r.h, OutH), r.h)]

CostOp(S) == IF S.model.cost = "mse" THEN "mse" ELSE "xent"
ModelBackwardStatus(S, t) == IF OutH \notin DOMAIN S.hd THEN "unspec" ELSE ApplyStatus(S, CostOp(S), <<>>, <<OutH, t>>)
\* [S, loss]
ModelBackward(S, t, uid) ==
  LET S1 == Apply(S, CostOp(S), <<>>, <<OutH, t>>, TmpA, uid)
      S2 == Backward(S1, TmpA, None, {})
  IN [S |-> Drop(S2, TmpA), loss |-> SumAll(HandleT(S1, TmpA))]

RECURSIVE AllParams(_,_)
AllParams(S, ls) == IF ls = <<>> THEN <<>> ELSE S.layers[Head(ls)].ph \o AllParams(S, Tail(ls))
ModelUpdate(S, uid) == Update(S, AllParams(S, S.model.layers), S.model.lr, uid)
=============================================================================
