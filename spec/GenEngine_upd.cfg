SPECIFICATION Spec
CONSTANTS
  MaxLen = 12
  MaxOps = 3
  MaxPasses = 4
  Ops = {"add", "mul", "neg"}
  Acts = {"op", "backward", "update", "clear", "clone", "drop", "grad", "own", "flag"}
  LeafDims <- LD_bcast
INVARIANT Emit
CHECK_DEADLOCK FALSE
