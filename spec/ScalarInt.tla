----------------------------- MODULE ScalarInt -----------------------------
(* Scalar domain: TLC integers (exact; used by the bounded model-checking configurations). *)
EXTENDS Naturals, Integers
IAdd(a, b) == a + b
IMul(a, b) == a * b
INeg(a) == 0 - a
IDiv(a, b) == a \div b          \* only used on exact quotients
IFn(name, a) == IF name = "relu" THEN (IF a > 0 THEN a ELSE 0) ELSE IF name = "step" THEN (IF a > 0 THEN 1 ELSE 0) ELSE a
RECURSIVE IPowN(_,_)
IPowN(a, n) == IF n = 0 THEN 1 ELSE a * IPowN(a, n - 1)
IPow(a, p) == IPowN(a, p.n)
IDPow(a, p) == IF p.n = 0 THEN 0 ELSE p.n * IPowN(a, p.n - 1)
=============================================================================
