---------------------------- MODULE AutodiffImpl ----------------------------
(***************************************************************************)
(* Implementation-shaped model of corgi's backward pass (src/array/mod.rs  *)
(* backward / propagate_consumers): per-node consumer counters, pending    *)
(* adjoint sums, depth-first recursion with an explicit frame stack, the   *)
(* root-takes-its-pending-sum branch, gradient storing by leaf-or-keep.    *)
(* One action per step of the code so that TLC explores every mid-pass     *)
(* state, and ghost variables that tie each pass to the ABSTRACT pass of   *)
(* AutodiffAbs (RefAdj / Backward): TLC checks that this design implements *)
(* the property-level specification on every graph, flag assignment and    *)
(* pass history within the bounds.                                         *)
(*                                                                         *)
(* Graph construction uses AutodiffAbs!Apply, so graphs, flags and values  *)
(* are exactly those of the abstract specification.  Handles: every node n *)
(* owns three handles 3(n-1)+1..3 with flags (untracked), (tracked, keep)  *)
(* and (tracked, no keep - the start_tracking() case).                     *)
(***************************************************************************)
EXTENDS Naturals, Integers, Sequences, FiniteSets, TLC

CONSTANTS SAdd(_,_), SMul(_,_), SNeg(_), SDiv(_,_), SFn(_,_), SPow(_,_), SDPow(_,_), SZero, SOne,
          AdjCanon(_,_),
          MaxOps,        \* operations added on top of the leaves
          MaxPasses,     \* backward passes per behaviour
          Ops,           \* subset of {"add","mul","neg","cfma","csq"}
          LeafTs,        \* sequence of leaf tensors
          Variants,      \* subset of 1..3: which of the three handles per node exist
          Seeds(_),      \* Seeds(dims): set of explicit seed tensors tried for a root of those dims
          Guard          \* TRUE: propagate_consumers has its "don't double-count" guard (the code);
                         \* FALSE: design mutant used to show the invariants are not vacuous

INSTANCE AutodiffAbs

VARIABLES S,        \* abstract state (nodes, gradient slots, handles)
          cnt,      \* consumer_count per node
          delta,    \* pending adjoint per node
          stack,    \* recursion: frames [n, keep, d, i, outs]
          passes,   \* finished passes
          evals,    \* ghost: derivative invocations of the running pass  [n, d]
          pre,      \* ghost: [S, h, seed] at the start of the running / last pass
          built     \* graph construction finished
vars == <<S, cnt, delta, stack, passes, evals, pre, built>>

NN == Len(S.nodes)
Idle == stack = <<>>
HandlesOf(n) == { 3*(n-1)+k : k \in Variants }
FlagsOf(k) == IF k = 1 THEN [trk |-> FALSE, keep |-> FALSE]
              ELSE IF k = 2 THEN [trk |-> TRUE, keep |-> TRUE] ELSE [trk |-> TRUE, keep |-> FALSE]

\* give node n its three handles
WithHandles(S0, n) ==
  [S0 EXCEPT !.hd = [h \in (DOMAIN S0.hd \ {0}) \cup HandlesOf(n) |->
                       IF h \in HandlesOf(n)
                       THEN [n |-> n, trk |-> FlagsOf(h - 3*(n-1)).trk, keep |-> FlagsOf(h - 3*(n-1)).keep]
                       ELSE S0.hd[h]]]

RECURSIVE MkLeaves(_,_)
MkLeaves(S0, ts) == IF ts = <<>> THEN S0
                    ELSE LET n == Len(S0.nodes) + 1
                         IN MkLeaves(WithHandles(NewLeaf(S0, 0, Head(ts), FALSE, n), n), Tail(ts))

Init == /\ S = MkLeaves(EmptyState, LeafTs)
        /\ cnt = [n \in 1..Len(LeafTs) |-> 0]
        /\ delta = [n \in 1..Len(LeafTs) |-> None]
        /\ stack = <<>> /\ passes = 0 /\ evals = <<>> /\ built = FALSE
        /\ pre = [S |-> EmptyState, h |-> 0, seed |-> None, adj |-> <<>>]

(***************************************************************************)
(* Graph construction                                                      *)
(***************************************************************************)
ArityOf(op) == IF op \in {"neg", "csq"} THEN 1 ELSE IF op = "cfma" THEN 3 ELSE 2
Tuples(k) == IF k = 1 THEN { <<a>> : a \in DOMAIN S.hd }
             ELSE IF k = 2 THEN (DOMAIN S.hd) \X (DOMAIN S.hd)
             ELSE (DOMAIN S.hd) \X (DOMAIN S.hd) \X (DOMAIN S.hd)

Build ==
  /\ ~built /\ Idle /\ NN < Len(LeafTs) + MaxOps
  /\ \E op \in Ops : \E hs \in Tuples(ArityOf(op)) :
       /\ ApplyStatus(S, op, <<>>, hs) = "ok"
       /\ LET n == NN + 1 IN
          /\ S' = WithHandles(Apply(S, op, <<>>, hs, 0, n), n)
          /\ cnt' = Append(cnt, 0) /\ delta' = Append(delta, None)
  /\ UNCHANGED <<stack, passes, evals, pre, built>>

Freeze == /\ ~built /\ NN > Len(LeafTs) /\ built' = TRUE
          /\ UNCHANGED <<S, cnt, delta, stack, passes, evals, pre>>

(***************************************************************************)
(* propagate_consumers (mod.rs): count the tracked uses of every node      *)
(* below n, descending into a node only the first time it is reached       *)
(***************************************************************************)
RECURSIVE Prop(_,_)
Prop(c, n) ==
  LET RECURSIVE Go(_,_)
      Go(cc, ks) ==
        IF ks = <<>> THEN cc ELSE
        LET k == Head(ks) IN
        IF k.trk THEN LET old == cc[k.n]
                          c1 == [cc EXCEPT ![k.n] = old + 1]
                          c2 == IF old = 0 \/ ~Guard THEN Prop(c1, k.n) ELSE c1    \* don't double-count
                      IN Go(c2, Tail(ks))
        ELSE Go(cc, Tail(ks))
  IN Go(c, S.nodes[n].kids)

Frame(n, keep, d) == [n |-> n, keep |-> keep, d |-> d, i |-> 0, outs |-> <<>>]

\* backward(seed) on handle h
Begin ==
  /\ built /\ Idle /\ passes < MaxPasses
  /\ \E h \in DOMAIN S.hd :
     \E seedOpt \in {None} \cup { Some(s) : s \in Seeds(HandleT(S, h).d) } :
       LET n == S.hd[h].n IN
       /\ IF IsSome(delta[n])
          THEN /\ stack' = <<Frame(n, S.hd[h].keep, delta[n].x)>>      \* a pending sum wins over the seed
               /\ delta' = [delta EXCEPT ![n] = None] /\ cnt' = cnt
          ELSE /\ stack' = <<Frame(n, S.hd[h].keep, SeedOf(S, h, seedOpt))>>
               /\ cnt' = Prop(cnt, n) /\ delta' = delta
       /\ pre' = [S |-> S, h |-> h, seed |-> seedOpt, adj |-> RefAdj(S, S.hd[h].n, SeedOf(S, h, seedOpt))]
  /\ evals' = <<>>
  /\ UNCHANGED <<S, passes, built>>

Top == stack[Len(stack)]

\* the derivative closure of the node on top of the stack runs once
Eval ==
  /\ ~Idle /\ Top.i = 0
  /\ LET f == Top  kids == S.nodes[f.n].kids IN
     /\ stack' = [stack EXCEPT ![Len(stack)] =
                    [f EXCEPT !.i = 1,
                              !.outs = [i \in 1..Len(kids) |->
                                          IF kids[i].trk THEN Some(Contribution(S, f.n, i, f.d)) ELSE None]]]
     /\ evals' = IF kids # <<>> THEN Append(evals, [n |-> f.n, d |-> f.d]) ELSE evals
  /\ UNCHANGED <<S, cnt, delta, passes, pre, built>>

\* contribution i is added to the operand's pending sum; the last consumer recurses
Deliver ==
  /\ ~Idle /\ Top.i >= 1 /\ Top.i <= Len(Top.outs)
  /\ LET f == Top  k == S.nodes[f.n].kids[f.i]  o == f.outs[f.i]
         adv == [stack EXCEPT ![Len(stack)].i = f.i + 1] IN
     IF o.none THEN stack' = adv /\ UNCHANGED <<cnt, delta>>
     ELSE LET nd == IF IsSome(delta[k.n]) THEN TAdd(delta[k.n].x, o.x) ELSE o.x
              c1 == cnt[k.n] - 1 IN
          /\ cnt' = [cnt EXCEPT ![k.n] = c1]
          /\ IF cnt[k.n] = 1
             THEN /\ delta' = [delta EXCEPT ![k.n] = None]
                  /\ stack' = Append(adv, Frame(k.n, k.keep, nd))
             ELSE /\ delta' = [delta EXCEPT ![k.n] = Some(nd)]
                  /\ stack' = adv
  /\ UNCHANGED <<S, passes, evals, pre, built>>

\* leaves, and nodes entered through a keep handle, add the adjoint to their slot
Store ==
  /\ ~Idle /\ Top.i > Len(Top.outs) /\ Top.i >= 1
  /\ LET f == Top IN
     /\ S' = IF S.nodes[f.n].kids = <<>> \/ f.keep
             THEN [S EXCEPT !.grad[f.n] = Accumulate(S.grad[f.n], Some(f.d))] ELSE S
     /\ stack' = SubSeq(stack, 1, Len(stack) - 1)
     /\ passes' = IF Len(stack) = 1 THEN passes + 1 ELSE passes
  /\ UNCHANGED <<cnt, delta, evals, pre, built>>

Clear ==
  /\ built /\ Idle /\ passes >= 1 /\ passes < MaxPasses
  /\ \E n \in 1..NN : IsSome(S.grad[n]) /\ S' = [S EXCEPT !.grad[n] = None]
  /\ UNCHANGED <<cnt, delta, stack, passes, evals, pre, built>>

Next == Build \/ Freeze \/ Begin \/ Eval \/ Deliver \/ Store \/ Clear
Spec == Init /\ [][Next]_vars
FairSpec == Spec /\ WF_vars(Eval \/ Deliver \/ Store)

(***************************************************************************)
(* Properties                                                              *)
(***************************************************************************)
\* C10: a finished pass leaves no residue (so the next pass behaves as the first)
NoResidue == Idle => \A n \in 1..NN : cnt[n] = 0 /\ delta[n] = None
CntNonNeg == \A n \in 1..NN : cnt[n] >= 0
\* C11: one derivative invocation per node ...
EvalOnce == \A i, j \in 1..Len(evals) : i # j => evals[i].n # evals[j].n
\* ... only after all consumers contributed, with the complete adjoint (the counter-free RefAdj)
PassAdj == pre.adj        \* the counter-free reference adjoint, computed when the pass began
EvalComplete == pre.h # 0 => \A i \in 1..Len(evals) :
                   LET a == PassAdj[evals[i].n] IN IsSome(a) /\ a.x = evals[i].d
\* ... and every node of the differentiated graph that has operands is evaluated
EvalAll == (Idle /\ pre.h # 0) => { evals[i].n : i \in 1..Len(evals) } =
             { n \in 1..pre.S.hd[pre.h].n : IsSome(PassAdj[n]) /\ HasKids(pre.S, n) }
\* C01 / C03 / C09 / C10: the finished pass IS the abstract pass: must-store nodes accumulated the
\* reference adjoint, may-store nodes either did or did not, nothing else changed
PassRefinesAbs ==
  (Idle /\ pre.h # 0 /\ passes >= 1) =>
     LET adj == PassAdj  P == pre.S  root == P.hd[pre.h].n IN
     \* a Clear after the pass may have emptied slots; compare only while no slot was cleared
     \A n \in 1..NN :
        \/ S.grad[n] = None /\ P.grad[n] # None          \* cleared afterwards
        \/ IF n <= root /\ IsSome(adj[n]) /\ MustStore(P, pre.h, adj, n)
           THEN S.grad[n] = Accumulate(P.grad[n], adj[n]) \/ S.grad[n] = None
           ELSE IF n <= root /\ IsSome(adj[n])
           THEN S.grad[n] \in {P.grad[n], Accumulate(P.grad[n], adj[n])} \/ S.grad[n] = None
           ELSE S.grad[n] = P.grad[n] \/ S.grad[n] = None
\* C08: node values never change (action property)
Immutable == [][\A n \in 1..NN : S'.nodes[n].t = S.nodes[n].t /\ S'.nodes[n].kids = S.nodes[n].kids]_vars
\* C03: a stored gradient has its array's dimensions
GradShape == \A n \in 1..NN : IsSome(S.grad[n]) => S.grad[n].x.d = S.nodes[n].t.d
\* C09: nothing is stored for an array that the pass did not reach through tracked uses
Terminates == <>[](Idle)
=============================================================================
