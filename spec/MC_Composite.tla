---------------------------- MODULE MC_Composite ----------------------------
(***************************************************************************)
(* TLC checks, over a bounded space of shapes with position-coded data and *)
(* prime-valued seeds, that every operation the crate builds out of other  *)
(* operations (Composite) equals the single-node definition the rest of    *)
(* the specification uses - forward value AND chained gradient:            *)
(*   SubOK, SoftmaxOK, MseOK, XentOK, ConvOK, LayerOK                      *)
(* and, as witnesses that the check has teeth,                             *)
(*   RollIsUnrollTransposed (the accumulating roll is the adjoint of       *)
(*   unroll) and NonAccumulatingRollWrong: with overlapping windows the    *)
(*   non-accumulating roll is NOT (expected violation, MC_Composite_neg).  *)
(* exp and ln are formal here: exp(x) := 2^x on small integers, ln := log2 *)
(* on powers of two - both sides of each equation use them only through    *)
(* SFn and the rules exp' = exp, ln' = 1/x, so the equalities are the      *)
(* algebraic identities of the chain rule, evaluated exactly.              *)
(***************************************************************************)
EXTENDS Dyadic, Sequences, FiniteSets, TLC

CONSTANTS MaxRank, MaxSize, ConvMax

CFn(name, a) ==
  IF IsHuge(a) THEN Huge
  ELSE IF name = "exp" THEN (IF a.e = 0 \/ a.m = 0 THEN [m |-> 1, e |-> 0 - a.m]
                             ELSE Assert(FALSE, <<"formal exp of a non-integer", a>>))
  ELSE IF name = "ln" THEN (IF a.m = 1 THEN DInt(0 - a.e) ELSE Assert(FALSE, <<"formal ln of a non power of two", a>>))
  ELSE DFn(name, a)

K == INSTANCE Composite WITH SAdd <- DAdd, SMul <- DMul, SNeg <- DNeg, SDiv <- DDiv, SFn <- CFn,
                             SPow <- DPow, SDPow <- DDPow, SZero <- DZero, SOne <- DOne

RECURSIVE ShapesOfRank(_)
ShapesOfRank(r) == IF r = 0 THEN {<<>>} ELSE { <<x>> \o t : x \in 1..MaxSize, t \in ShapesOfRank(r - 1) }
Shapes == UNION { ShapesOfRank(r) : r \in 1..MaxRank }

Pr == <<2, 3, 5, 7, 11, 13, 17, 19, 23, 29, 31, 37, 41, 43, 47, 53, 59, 61, 67, 71>>
Val(k, e) == LET x == ((7 * k + 3 * e) % 9) - 4 IN IF x = 0 THEN 5 ELSE x
IntT(k, d) == [d |-> d, v |-> [e \in 1..K!Prod(d) |-> DInt(Val(k, e))]]
\* powers of two (for ln and divisors)
PowT(d) == [d |-> d, v |-> [e \in 1..K!Prod(d) |-> [m |-> 1, e |-> (e % 4) - 1]]]
\* rows (last dimension n) whose formal exponentials sum to a power of two: x = (c, c, c+1, c+2, ...)
SoftT(d) == LET n == d[Len(d)] IN
            [d |-> d, v |-> [e \in 1..K!Prod(d) |-> LET j == (e-1) % n  row == (e-1) \div n
                                                    IN DInt((row % 3) - 1 + (IF j = 0 THEN 0 ELSE j - 1))]]
SeedT(d) == [d |-> d, v |-> [e \in 1..K!Prod(d) |-> DInt(Pr[((e - 1) % 20) + 1] * (IF e % 3 = 0 THEN -1 ELSE 1))]]
Inv2(n) == [m |-> 1, e |-> CHOOSE k \in 0..6 : Pow2[k] = n]
IsPow2(n) == \E k \in 0..6 : Pow2[k] = n

Cases ==
       { [kind |-> "sub", ds |-> <<a, b>>] : a \in Shapes, b \in Shapes }
  \cup { [kind |-> "softmax", ds |-> <<a>>] : a \in Shapes }
  \cup { [kind |-> "mse", ds |-> <<a, b>>] : a \in Shapes, b \in Shapes }
  \cup { [kind |-> "xent", ds |-> <<a, b>>] : a \in Shapes, b \in Shapes }
  \cup { [kind |-> "conv", ds |-> <<b \o <<dp, ir, ic>>, <<cnt, dp, fr, fc>> >>, sr |-> sr, sc |-> sc] :
           ir \in 1..ConvMax, ic \in 1..ConvMax, dp \in 1..2, cnt \in 1..2, fr \in 1..2, fc \in 1..2,
           sr \in 1..2, sc \in 1..2, b \in {<<>>, <<2>>, <<1, 2>>} }
  \cup { [kind |-> "dense", ds |-> <<b \o <<i>>, <<o, i>>, <<o>> >>] : i \in 1..2, o \in 1..2, b \in {<<>>, <<2>>, <<3>>} }

Admitted(cs) ==
  CASE cs.kind \in {"sub"} -> K!BOK(cs.ds[1], cs.ds[2])
    [] cs.kind = "mse" -> K!BOK(cs.ds[1], cs.ds[2]) /\ IsPow2(K!Prod(cs.ds[1]))
    [] cs.kind = "xent" -> K!BOK(cs.ds[1], cs.ds[2]) /\ IsPow2(cs.ds[1][1])
    [] cs.kind = "softmax" -> cs.ds[1][Len(cs.ds[1])] >= 2
    [] cs.kind = "conv" -> cs.ds[2][3] <= cs.ds[1][Len(cs.ds[1]) - 1] /\ cs.ds[2][4] <= cs.ds[1][Len(cs.ds[1])]
    [] OTHER -> TRUE

VARIABLE c
Init == c \in { cs \in Cases : Admitted(cs) }
Next == UNCHANGED c
Spec == Init /\ [][Next]_c

SubOK == c.kind = "sub" =>
  LET a == IntT(1, c.ds[1]) b == IntT(2, c.ds[2])
      y == K!Forward("sub", <<>>, <<a, b>>)  s == SeedT(y.d)
  IN /\ K!SubImpl(a, b) = y
     /\ \A i \in 1..2 : K!SubImplVjp(a, b, i, s) = K!Vjp("sub", <<>>, <<a, b>>, i, s)

SoftmaxOK == c.kind = "softmax" =>
  LET a == SoftT(c.ds[1])
      y == K!Forward("softmax", <<>>, <<a>>)  s == SeedT(y.d)
  IN /\ K!SoftmaxImpl(a) = y
     /\ K!SoftmaxImplVjp(a, s) = K!Vjp("softmax", <<>>, <<a>>, 1, s)

MseOK == c.kind = "mse" =>
  LET o == IntT(1, c.ds[1]) t == IntT(2, c.ds[2])
      y == K!Forward("mse", <<>>, <<o, t>>)  s == SeedT(y.d)
      invN == Inv2(K!Prod(c.ds[1]))
  IN /\ K!MseImpl(o, t, invN) = y
     /\ \A i \in 1..2 : K!MseImplVjp(o, t, invN, i, s) = K!Vjp("mse", <<>>, <<o, t>>, i, s)

XentOK == c.kind = "xent" =>
  LET o == PowT(c.ds[1]) t == IntT(2, c.ds[2])
      y == K!Forward("xent", <<>>, <<o, t>>)  s == SeedT(y.d)
      invB == Inv2(c.ds[1][1])
  IN /\ K!XentImpl(o, t, invB) = y
     /\ \A i \in 1..2 : K!XentImplVjp(o, t, invB, i, s) = K!Vjp("xent", <<>>, <<o, t>>, i, s)

ConvCase == c.kind = "conv"
Img == IntT(1, c.ds[1])
Flt == IntT(2, c.ds[2])
ConvOK == ConvCase =>
  LET y == K!Conv(Img, Flt, c.sr, c.sc)  s == SeedT(y.d)
      par == [sr |-> c.sr, sc |-> c.sc]
  IN /\ K!ConvImpl(Img, Flt, c.sr, c.sc) = y
     /\ \A i \in 1..2 : K!ConvImplVjp(Img, Flt, c.sr, c.sc, i, s, TRUE) = K!Vjp("conv", par, <<Img, Flt>>, i, s)

\* the accumulating roll is the adjoint of unroll: <s, Unroll(e_j)> = RollAcc(s)[j]
RollIsUnrollTransposed == ConvCase =>
  LET fr == c.ds[2][3] fc == c.ds[2][4]
      sh == K!UnrollShape(c.ds[1], c.sr, c.sc, fr, fc)
      s == SeedT(sh.od)
  IN K!RollWith(s, sh.dp, sh.ir, sh.ic, c.sr, c.sc, fr, fc, TRUE)
       = K!LinVjp(LAMBDA X : K!Unroll(X, c.sr, c.sc, fr, fc), c.ds[1], s)
\* where windows do not overlap, rolling undoes unrolling on the covered pixels (what roll_blocks is documented to be)
RollInvertsUnroll == ConvCase =>
  LET fr == c.ds[2][3] fc == c.ds[2][4]
      sh == K!UnrollShape(c.ds[1], c.sr, c.sc, fr, fc)
      back == K!RollWith(K!Unroll(Img, c.sr, c.sc, fr, fc), sh.dp, sh.ir, sh.ic, c.sr, c.sc, fr, fc, FALSE)
  IN \A p \in 1..Len(Img.v) : back.v[p] = Img.v[p] \/ back.v[p] = DZero

\* conv layer = conv + one bias per filter; dense layer = x W^T + b
LayerOK ==
  /\ ConvCase => LET b == IntT(3, <<c.ds[2][1], 1, 1>>) IN
                 K!ConvLayerImpl(Img, Flt, b, c.sr, c.sc) = K!ConvLayerDef(Img, Flt, b, c.sr, c.sc)
  /\ c.kind = "dense" =>
       LET x == IntT(1, c.ds[1]) w == IntT(2, c.ds[2]) b == IntT(3, c.ds[3])
           y == K!DenseImpl(x, w, b)
           nb == K!Prod(K!FirstN(c.ds[1], Len(c.ds[1]) - 1))  ni == c.ds[2][2]  no == c.ds[2][1]
       IN /\ y.d = (IF Len(c.ds[1]) = 1 THEN <<1>> ELSE K!FirstN(c.ds[1], Len(c.ds[1]) - 1)) \o <<no>>
          /\ \A r \in 0..(nb-1), j \in 0..(no-1) :
               y.v[r*no + j + 1] = DAdd(b.v[j+1], K!SumV([k \in 1..ni |-> DMul(x.v[r*ni + k], w.v[j*ni + k])]))

\* EXPECTED TO FAIL (MC_Composite_neg.cfg): the non-accumulating roll as derivative of unroll
NonAccumulatingRollAlsoRight == ConvCase =>
  LET y == K!Conv(Img, Flt, c.sr, c.sc)  s == SeedT(y.d) IN
  K!ConvImplVjp(Img, Flt, c.sr, c.sc, 1, s, FALSE) = K!Vjp("conv", [sr |-> c.sr, sc |-> c.sc], <<Img, Flt>>, 1, s)
=============================================================================
