------------------------------ MODULE MC_Rules ------------------------------
(***************************************************************************)
(* The derivative rules of TensorCore are checked against an independent   *)
(* derivation: FORWARD-MODE dual numbers.  TensorCore is instantiated a    *)
(* second time over scalars [v, d] (value, infinitesimal part) whose       *)
(* arithmetic is the sum, product and quotient rule and nothing else; the  *)
(* j-th component of the VJP of an operation must equal the infinitesimal  *)
(* part of <seed, Forward(operands with e_j added infinitesimally)>.       *)
(* Each initial state of this specification is one case                    *)
(* (operation, parameters, operand shapes, differentiated operand), so TLC *)
(* enumerates the whole bounded space and evaluates RuleOK in each.        *)
(*   RuleOK:  Vjp (closed form used by the validators)                     *)
(*          = VjpDef (definition-derived form)                             *)
(*          = dual-number derivative                                       *)
(***************************************************************************)
EXTENDS Dyadic, Sequences, FiniteSets, TLC

CONSTANTS MaxRank, MaxSize, MatSizes, ConvMax

\* ---- dual numbers over exact dyadic rationals
Du(v, d) == [v |-> v, d |-> d]
UAdd(a, b) == Du(DAdd(a.v, b.v), DAdd(a.d, b.d))
UMul(a, b) == Du(DMul(a.v, b.v), DAdd(DMul(a.v, b.d), DMul(a.d, b.v)))
UNeg(a) == Du(DNeg(a.v), DNeg(a.d))
\* quotient rule (divisors are powers of two in the exact domain)
UDiv(a, b) == Du(DDiv(a.v, b.v), DDiv(DAdd(DMul(a.d, b.v), DNeg(DMul(a.v, b.d))), DMul(b.v, b.v)))
UFn(name, a) == IF name = "relu" THEN (IF a.v.m > 0 THEN a ELSE Du(DZero, DZero))
                ELSE IF name = "step" THEN Du(IF a.v.m > 0 THEN DOne ELSE DZero, DZero) ELSE a
RECURSIVE UPowN(_,_)
UPowN(a, n) == IF n = 0 THEN Du(DOne, DZero) ELSE UMul(a, UPowN(a, n - 1))
UPow(a, p) == IF p.n >= 0 THEN UPowN(a, p.n) ELSE UDiv(Du(DOne, DZero), UPowN(a, 0 - p.n))
UDPow(a, p) == Du(DZero, DZero)      \* not used by forward definitions

I == INSTANCE TensorCore WITH SAdd <- DAdd, SMul <- DMul, SNeg <- DNeg, SDiv <- DDiv, SFn <- DFn,
                              SPow <- DPow, SDPow <- DDPow, SZero <- DZero, SOne <- DOne
D == INSTANCE TensorCore WITH SAdd <- UAdd, SMul <- UMul, SNeg <- UNeg, SDiv <- UDiv, SFn <- UFn,
                              SPow <- UPow, SDPow <- UDPow, SZero <- Du(DZero, DZero), SOne <- Du(DOne, DZero)

\* ---- shapes
RECURSIVE ShapesOfRank(_)
ShapesOfRank(r) == IF r = 0 THEN {<<>>} ELSE { <<x>> \o t : x \in 1..MaxSize, t \in ShapesOfRank(r - 1) }
Shapes == UNION { ShapesOfRank(r) : r \in 1..MaxRank }

\* ---- data: small non-zero integers, distinct by position; divisors are +-1; seeds are primes
Pr == <<2, 3, 5, 7, 11, 13, 17, 19, 23, 29, 31, 37, 41, 43, 47, 53, 59, 61, 67, 71>>
Val(k, e) == LET x == ((7 * k + 3 * e) % 9) - 4 IN IF x = 0 THEN 5 ELSE x
Pow2Val(e) == Dy(IF e % 2 = 0 THEN 1 ELSE -1, (e % 3) - 1)          \* +-2^k
Operand(op, k, d) == [d |-> d, v |-> [e \in 1..I!Prod(d) |->
                        IF (op = "div" /\ k = 2) \/ op \in {"recip", "powneg"} THEN Pow2Val(e) ELSE DInt(Val(k, e))]]
SeedT(d) == [d |-> d, v |-> [e \in 1..I!Prod(d) |-> DInt(Pr[((e - 1) % 20) + 1] * (IF e % 3 = 0 THEN -1 ELSE 1))]]

\* ---- the space of cases
EWCases == { [op |-> o, par |-> IF o = "axpy" THEN [alpha |-> Dy(-3, 1)] ELSE <<>>, ds |-> <<a, b>>, i |-> i] :
               o \in {"add", "sub", "mul", "div", "axpy", "mse"}, a \in Shapes, b \in Shapes, i \in 1..2 }
UnCases == { [op |-> o[1], par |-> o[2], ds |-> <<a>>, i |-> 1] :
               o \in { <<"neg", <<>> >>, <<"scale", [c |-> Dy(-3, 1)]>>, <<"relu", <<>> >>, <<"csq", <<>> >>,
                       <<"powf", [p |-> [n |-> 0]]>>, <<"powf", [p |-> [n |-> 1]]>>, <<"powf", [p |-> [n |-> 2]]>>,
                       <<"powf", [p |-> [n |-> 3]]>>, <<"powf", [p |-> [n |-> 4]]>> }, a \in Shapes }
           \cup { [op |-> "recip", par |-> <<>>, ds |-> <<a>>, i |-> 1] : a \in Shapes }
           \cup { [op |-> "powneg", par |-> [p |-> [n |-> 0 - n]], ds |-> <<a>>, i |-> 1] : a \in Shapes, n \in 1..2 }
SumCases == { [op |-> "sum", par |-> [k |-> k], ds |-> <<a>>, i |-> 1] : a \in Shapes, k \in 1..MaxRank }
ReshapeCases == { [op |-> "reshape", par |-> [d |-> <<I!Prod(a)>>], ds |-> <<a>>, i |-> 1] : a \in Shapes }
CustomCases == { [op |-> o, par |-> <<>>, ds |-> [k \in 1..(IF o = "cfma" THEN 3 ELSE 2) |-> a], i |-> i] :
                   o \in {"cadd", "cmul", "cfma"}, a \in Shapes, i \in 1..3 }
Leads == {<<>>, <<2>>, <<1>>, <<2, 1>>, <<1, 2>>}
MatCases == { [op |-> "matmul", par |-> [ta |-> ta, tb |-> tb],
               ds |-> <<la \o (IF ta THEN <<k, r>> ELSE <<r, k>>), lb \o (IF tb THEN <<c, k>> ELSE <<k, c>>)>>
                      \o (IF cf = 0 THEN <<>> ELSE IF cf = 1 THEN << <<c>> >> ELSE IF cf = 2 THEN << <<r, c>> >>
                          ELSE IF cf = 3 THEN << <<1, c>> >> ELSE << <<1>> >>),
               i |-> i] :
               r \in MatSizes, k \in MatSizes, c \in MatSizes, ta \in BOOLEAN, tb \in BOOLEAN,
               la \in Leads, lb \in Leads, cf \in 0..4, i \in 1..3 }
         \cup { [op |-> "matmul", par |-> [ta |-> FALSE, tb |-> tb], ds |-> << <<k>>, lb \o (IF tb THEN <<c, k>> ELSE <<k, c>>)>>, i |-> i] :
                  k \in MatSizes, c \in MatSizes, tb \in BOOLEAN, lb \in {<<>>, <<2>>}, i \in 1..2 }
         \cup { [op |-> "matmul", par |-> [ta |-> ta, tb |-> TRUE], ds |-> <<lb \o (IF ta THEN <<k, c>> ELSE <<c, k>>), <<k>> >>, i |-> i] :
                  k \in MatSizes, c \in MatSizes, ta \in BOOLEAN, lb \in {<<>>, <<2>>}, i \in 1..2 }
         \cup { [op |-> "matmul", par |-> [ta |-> FALSE, tb |-> FALSE], ds |-> << <<k>>, <<k>> >>, i |-> i] : k \in MatSizes, i \in 1..2 }
ConvCases == { [op |-> "conv", par |-> [sr |-> sr, sc |-> sc],
                ds |-> <<b \o <<dp, ir, ic>>, <<cnt, dp, fr, fc>> >>, i |-> i] :
                ir \in 1..ConvMax, ic \in 1..ConvMax, dp \in 1..2, cnt \in 1..2, fr \in 1..2, fc \in 1..2,
                sr \in 1..2, sc \in 1..2, b \in {<<>>, <<2>>}, i \in 1..2 }
Cases == EWCases \cup UnCases \cup SumCases \cup ReshapeCases \cup CustomCases \cup MatCases \cup ConvCases

VARIABLE c
Ts(cs) == [k \in 1..Len(cs.ds) |-> Operand(cs.op, k, cs.ds[k])]
OpOf(cs) == IF cs.op = "powneg" THEN "powf" ELSE cs.op
Admitted(cs) == /\ cs.i <= Len(cs.ds) /\ I!Status(OpOf(cs), cs.par, Ts(cs)) = "ok"
                /\ cs.op = "mse" => I!Prod(cs.ds[1]) \in {1, 2, 4, 8, 16}
Init == c \in { cs \in Cases : Admitted(cs) }
Next == UNCHANGED c
Spec == Init /\ [][Next]_c

\* ---- forward-mode derivative of <seed, Forward> with respect to element j of operand i
Lift(t, on, j) == [d |-> t.d, v |-> [e \in 1..Len(t.v) |-> Du(t.v[e], IF on /\ e = j THEN DOne ELSE DZero)]]
LiftPar(par) == IF "c" \in DOMAIN par THEN [c |-> Du(par.c, DZero)]
                ELSE IF "alpha" \in DOMAIN par THEN [alpha |-> Du(par.alpha, DZero)] ELSE par
DualVjp(cs) ==
  LET ts == Ts(cs)
      out == I!Forward(OpOf(cs), cs.par, ts)
      s == SeedT(out.d)
  IN [d |-> ts[cs.i].d,
      v |-> [j \in 1..Len(ts[cs.i].v) |->
               LET f == D!Forward(OpOf(cs), LiftPar(cs.par), [k \in 1..Len(ts) |-> Lift(ts[k], k = cs.i, j)])
               IN I!SumV([p \in 1..Len(f.v) |-> DMul(s.v[p], f.v[p].d)])]]

RuleOK ==
  LET ts == Ts(c)
      s == SeedT(I!Forward(OpOf(c), c.par, ts).d)
      fast == I!Vjp(OpOf(c), c.par, ts, c.i, s)
  IN /\ fast.d = ts[c.i].d
     /\ fast = I!VjpDef(OpOf(c), c.par, ts, c.i, s)
     /\ fast = DualVjp(c)
=============================================================================
