SPECIFICATION Spec
CONSTANTS
  MaxRank = 3
  MaxSize = 2
  MatSizes = {1, 2}
  ConvMax = 3
INVARIANT RuleOK
CHECK_DEADLOCK FALSE
