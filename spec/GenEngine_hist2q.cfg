SPECIFICATION Spec
CONSTANTS
  MaxLen = 3
  MaxOps = 2
  MaxPasses = 2
  Ops = {"mul"}
  Acts = {"op", "backward", "flag", "clear"}
  LeafDims <- LD_scalar
INVARIANT Emit
CHECK_DEADLOCK FALSE
