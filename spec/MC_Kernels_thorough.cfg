SPECIFICATION Spec
CONSTANTS
  MaxRank = 4
  MaxSize = 3
  MatSizes = {1, 2, 3}
  Variant = "code"
INVARIANT KernelRefines
INVARIANT RefusesExactly
INVARIANT TypeOK
CHECK_DEADLOCK FALSE
