----------------------------- MODULE KernelImpl -----------------------------
(***************************************************************************)
(* The index-walking kernels of the crate as a state machine, transcribed  *)
(* from the code (src/array/mod.rs sliced_op 497-611, flatten_to 614-644,  *)
(* element_wise_dimensions 261-280; arithmetic.rs element_wise_op 14-44,   *)
(* sum 125-175; linalg.rs matmul_slice / matmul 71-290):                   *)
(*                                                                         *)
(*   one run = one call; Begin derives the PLAN exactly as the code does   *)
(*   (operand list, input / output dimensions, number of operation         *)
(*   dimensions, flattening, assertions -> "refused"); every Step is one   *)
(*   iteration of the loop over the leading index (the odometer `idx`),    *)
(*   computing each operand's slice offset with the code's fold            *)
(*   acc * d + (if d == 1 {0} else {i}) and writing one output slice;      *)
(*   flatten_to is the second loop (one Step per element of the source).   *)
(*                                                                         *)
(* MC_Kernels checks that every finished run equals the DEFINITION in      *)
(* TensorCore (EW / SumK / the sum VJP / ReduceTo / Matmul) - i.e. that    *)
(* the walking algorithm, as now written, implements the index-formula     *)
(* semantics the rest of the specification and the validators use - and    *)
(* that it refuses exactly the shape pairs the definition refuses.  The    *)
(* defects D4, D5, D8 and D10 of section 9 of DESIGN.md were all in this   *)
(* code; the variants that reintroduce them are refuted by the same        *)
(* invariants (MC_Kernels_neg).                                            *)
(***************************************************************************)
EXTENDS TensorCore

CONSTANT Variant          \* "code" = the code as it is; other values = known-wrong variants (negative checks)

VARIABLES cs,             \* the call (constant during a run)
          pc,             \* "begin" | "run" | "done" | "refused"
          plan,           \* derived by Begin
          idx, k, out     \* odometer, iteration count, output buffer
kvars == <<cs, pc, plan, idx, k, out>>

\* ---- iterator idioms
Skip(s, n) == IF n >= Len(s) THEN <<>> ELSE SubSeq(s, n + 1, Len(s))
Take(s, n) == SubSeq(s, 1, Mn(n, Len(s)))
Rev(s) == [i \in 1..Len(s) |-> s[Len(s) + 1 - i]]
ZipLen(a, b) == Mn(Len(a), Len(b))
SatSub(a, b) == IF a > b THEN a - b ELSE 0
\* .zip(..).fold(0, |acc, (d, i)| acc * d + if *d == 1 { 0 } else { *i })
RECURSIVE OffFold(_,_,_,_)
OffFold(ds, is, j, acc) == IF j > ZipLen(ds, is) THEN acc
                           ELSE OffFold(ds, is, j + 1, acc * ds[j] + (IF ds[j] = 1 THEN 0 ELSE is[j]))
Off(ds, is) == OffFold(ds, is, 1, 0)
\* for (x, d) in indices.iter_mut().zip(dims).rev() { if *x == *d - 1 { *x = 0 } else { *x += 1; break } }
RECURSIVE Inc(_,_,_)
Inc(ix, dims, j) == IF j = 0 THEN ix
                    ELSE IF ix[j] = dims[j] - 1 THEN Inc([ix EXCEPT ![j] = 0], dims, j - 1)
                    ELSE [ix EXCEPT ![j] = ix[j] + 1]
Advance(ix, dims) == Inc(ix, dims, ZipLen(ix, dims))

\* ---- element_wise_dimensions: the longer shape, pairwise max from the right; asserts compatibility
EWDims(x, y) ==
  LET longer == IF Len(x) > Len(y) THEN x ELSE y
      other == IF Len(x) > Len(y) THEN y ELSE x
      off == Len(longer) - Len(other)
  IN [ok |-> \A j \in 1..Len(other) : longer[off + j] = other[j] \/ longer[off + j] = 1 \/ other[j] = 1,
      d |-> [j \in 1..Len(longer) |-> IF j <= off THEN longer[j] ELSE Mx(longer[j], other[j - off])]]

\* ---- Array::matmul: shape derivation and assertions
MatmulPlan(a, ta, b, tb, c) ==
  LET ad == a.d  bd == b.d
      longer == IF Len(ad) >= Len(bd) THEN ad ELSE bd
      shorter == IF Len(ad) >= Len(bd) THEN bd ELSE ad
      lc == SatSub(Len(longer), 2)
      srev == Skip(Rev(shorter), 2)                       \* shorter's leading dims from the right
      \* pairs (longer leading dim from the right, shorter leading dim from the right)
      np == Mn(lc, Len(srev))
      leadok == \A j \in 1..np : longer[lc + 1 - j] = srev[j] \/ longer[lc + 1 - j] = 1 \/ srev[j] = 1
      ind == [j \in 1..Len(longer) |-> IF j <= lc /\ lc + 1 - j <= np THEN Mx(longer[j], srev[lc + 1 - j]) ELSE longer[j]]
      rows == IF Len(ad) < 2 /\ (~ta \/ Len(bd) < 2) THEN 1 ELSE ad[Len(ad) - (IF ta THEN 1 ELSE 2) + 1]
      cols == IF Len(bd) < 2 /\ (tb \/ Len(ad) < 2) THEN 1 ELSE bd[Len(bd) - (IF tb THEN 2 ELSE 1) + 1]
      ai == IF ta THEN 2 ELSE 1
      bi == IF tb THEN 1 ELSE 2
      slen == IF Len(ad) < ai THEN (IF Len(bd) >= bi THEN bd[Len(bd) - bi + 1] ELSE 1) ELSE ad[Len(ad) - ai + 1]
      sumok == Len(ad) < ai \/ Len(bd) < bi \/ slen = bd[Len(bd) - bi + 1]
      outd == Take(ind, lc) \o (IF Len(ind) < 2 THEN <<cols>> ELSE <<rows, cols>>)
      hasc == IsTerm(c)
      cok == ~hasc \/ Len(c.v) = 1 \/
             (/\ c.d[Len(c.d)] = cols
              /\ (Len(c.d) < 2 \/ c.d[Len(c.d) - 1] = 1 \/ c.d[Len(c.d) - 1] = rows))
  IN [ok |-> leadok /\ sumok /\ cok,
      arrays |-> <<a, b, IF hasc THEN c ELSE T(<<1>>, <<SZero>>)>>,
      ind |-> ind, outd |-> outd, opdc |-> 2, flat |-> 0, kind |-> "matmul",
      par |-> [rows |-> rows, cols |-> cols, len |-> slen, ta |-> ta, tb |-> tb, set |-> hasc]]

\* ---- the plan of each call
PlanOf(c) ==
  CASE c.kind = "ew" ->
         LET e == EWDims(c.ts[1].d, c.ts[2].d) IN
         [ok |-> e.ok, arrays |-> c.ts, ind |-> e.d, outd |-> e.d, opdc |-> 1, flat |-> 0, kind |-> "ew", par |-> [f |-> c.f]]
    [] c.kind = "sum" ->
         LET d == c.ts[1].d  lc == SatSub(Len(d), c.k)
             target == Take(d, lc) \o [j \in 1..c.k |-> 1]
         IN [ok |-> TRUE, arrays |-> c.ts, ind |-> d, outd |-> target, opdc |-> c.k, flat |-> c.k, kind |-> "sum", par |-> <<>>]
    [] c.kind = "spread" ->     \* the derivative of sum(k): the adjoint reshaped to target, spread over the summed block
         LET d == c.d  lc == SatSub(Len(d), c.k)
             target == Take(d, lc) \o [j \in 1..c.k |-> 1]
         IN [ok |-> TRUE, arrays |-> <<T(target, c.ts[1].v)>>, ind |-> target, outd |-> d, opdc |-> c.k, flat |-> 0,
             kind |-> "spread", par |-> <<>>]
    [] c.kind = "matmul" -> MatmulPlan(c.ts[1], c.ta, c.ts[2], c.tb, IF Len(c.ts) = 3 THEN c.ts[3] ELSE NoTerm)
    [] c.kind = "flatten" ->
         [ok |-> TRUE, arrays |-> c.ts, ind |-> c.ts[1].d, outd |-> c.d, opdc |-> 0, flat |-> 0, kind |-> "flatten", par |-> <<>>]

\* ---- sliced_op: quantities derived once per call
PValid(p) == \A n \in 1..Len(p.arrays) :
               LET rv == Skip(Rev(p.arrays[n].d), p.opdc)  ri == Skip(Rev(p.ind), p.opdc)
               IN \A j \in 1..ZipLen(rv, ri) : rv[j] = 1 \/ rv[j] = ri[j]
LeadLen(p) == Prod(Skip(Rev(p.ind), p.opdc))
LeadCnt(p) == SatSub(Len(p.ind), p.opdc)
GroupLen(p, n) == Prod(Take(Rev(p.arrays[n].d), p.opdc))
OutGroupLen(p) == Prod(Skip(p.outd, LeadCnt(p)))
ResultDims(p) == IF p.flat > 0 THEN Take(p.outd, Len(p.outd) - p.flat) \o <<Prod(LastN(p.outd, p.flat))>> ELSE p.outd

SliceOf(p, n, ix) ==
  LET v == p.arrays[n]  gl == GroupLen(p, n)
      alc == SatSub(Len(v.d), p.opdc)
      off == IF LeadCnt(p) = 0 THEN 0
             ELSE IF Variant = "operand-offset-modulo" THEN       \* D5-like: walk the operand's slices round-robin
                  LET ix0 == Off(p.ind, ix) IN ix0 % Prod(Take(v.d, alc))
             ELSE Off(Take(v.d, alc), Skip(ix, LeadCnt(p) - alc))
  IN SubSeq(v.v, off * gl + 1, (off + 1) * gl)

F2(f, x, y) == IF f = "add" THEN SAdd(x, y) ELSE SMul(x, y)
\* what the operation closure writes into the output slice `cur`, given the operand slices
SliceOut(p, sl, cur) ==
  LET n == Len(cur) IN
  CASE p.kind = "ew" ->
         LET la == p.arrays[1].d[Len(p.arrays[1].d)]  lb == p.arrays[2].d[Len(p.arrays[2].d)]
         IN [i \in 1..n |-> F2(p.par.f, sl[1][((i-1) % la) + 1], sl[2][((i-1) % lb) + 1])]
    [] p.kind = "sum" -> [i \in 1..n |-> IF i = 1 THEN SumV(sl[1]) ELSE cur[i]]
    [] p.kind = "spread" -> [i \in 1..n |-> sl[1][1]]
    [] p.kind = "matmul" ->
         LET q == p.par
             base == IF q.set THEN [i \in 1..n |-> sl[3][((i-1) % Len(sl[3])) + 1]] ELSE cur
         IN [i \in 1..n |->
               IF i > q.rows * q.cols THEN base[i]
               ELSE LET r == (i-1) \div q.cols  j == (i-1) % q.cols IN
                    SAdd(base[i], SumV([kk \in 1..q.len |->
                       SMul(sl[1][(IF q.ta THEN (kk-1) * q.rows + r ELSE r * q.len + (kk-1)) + 1],
                            sl[2][(IF q.tb THEN j * q.len + (kk-1) ELSE (kk-1) * q.cols + j) + 1])]))]

\* ---- the machine
KInit(Cases) == /\ cs \in Cases /\ pc = "begin" /\ plan = <<>> /\ idx = <<>> /\ k = 0 /\ out = <<>>

Begin ==
  /\ pc = "begin"
  /\ LET p == PlanOf(cs) IN
     IF ~p.ok \/ (p.kind # "flatten" /\ ~PValid(p))
     THEN /\ pc' = "refused" /\ UNCHANGED <<plan, idx, k, out>>
     ELSE /\ plan' = p
          /\ k' = 0
          /\ IF p.kind = "flatten"
             THEN IF p.ind = p.outd                                 \* same dimensions: the array itself
                  THEN /\ pc' = "done" /\ out' = p.arrays[1].v /\ idx' = <<>>
                  ELSE /\ pc' = "run" /\ out' = [i \in 1..Prod(p.outd) |-> SZero] /\ idx' = [j \in 1..Len(p.ind) |-> 0]
             ELSE /\ pc' = "run"
                  /\ out' = [i \in 1..Prod(p.outd) |-> SZero]
                  /\ idx' = [j \in 1..LeadCnt(p) |-> 0]
  /\ UNCHANGED cs

\* one iteration of `for _ in 0..leading_length` (or the single call when there is no leading dimension)
StepSliced ==
  /\ pc = "run" /\ plan.kind # "flatten" /\ k < LeadLen(plan)
  /\ LET p == plan
         ogl == OutGroupLen(p)
         sl == [n \in 1..Len(p.arrays) |-> SliceOf(p, n, idx)]
         oo == (IF LeadCnt(p) = 0 THEN 0 ELSE Off(p.outd, idx)) * ogl
         cur == SubSeq(out, oo + 1, oo + ogl)
         new == SliceOut(p, sl, cur)
     IN /\ out' = [i \in 1..Len(out) |-> IF i > oo /\ i <= oo + ogl THEN new[i - oo] ELSE out[i]]
        /\ idx' = Advance(idx, p.ind)
  /\ k' = k + 1
  /\ UNCHANGED <<cs, pc, plan>>

\* one iteration of `for value in self.values.iter()` of flatten_to
StepFlatten ==
  /\ pc = "run" /\ plan.kind = "flatten" /\ k < Len(plan.arrays[1].v)
  /\ LET p == plan
         skipped == Len(p.ind) - Len(p.outd)
         at == (IF Variant = "flatten-leading-only" THEN (k % Prod(p.outd))       \* D4-like: position modulo the target size
                ELSE Off(p.outd, Skip(idx, skipped))) + 1
     IN /\ out' = [out EXCEPT ![at] = SAdd(out[at], p.arrays[1].v[k + 1])]
        /\ idx' = Advance(idx, p.ind)
  /\ k' = k + 1
  /\ UNCHANGED <<cs, pc, plan>>

Finish ==
  /\ pc = "run"
  /\ k = (IF plan.kind = "flatten" THEN Len(plan.arrays[1].v) ELSE LeadLen(plan))
  /\ pc' = "done"
  /\ UNCHANGED <<cs, plan, idx, k, out>>

KNext == Begin \/ StepSliced \/ StepFlatten \/ Finish

Result == T(IF plan.kind = "flatten" THEN plan.outd ELSE ResultDims(plan), out)
=============================================================================
