SPECIFICATION Spec
CONSTANTS
  MaxRank = 2
  MaxSize = 2
  ConvMax = 3
INVARIANT SubOK
INVARIANT SoftmaxOK
INVARIANT MseOK
INVARIANT XentOK
INVARIANT ConvOK
INVARIANT RollIsUnrollTransposed
INVARIANT RollInvertsUnroll
INVARIANT LayerOK
CHECK_DEADLOCK FALSE
