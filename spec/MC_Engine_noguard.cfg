SPECIFICATION MCSpec
CONSTANTS
  MaxOps = 2
  MaxPasses = 2
  Ops = {"add", "mul", "neg"}
  Guard = FALSE
  LeafKind = "scalar"
  Variants = {2}
INVARIANTS NoResidue
CHECK_DEADLOCK FALSE
