SPECIFICATION Spec
CONSTANTS
  MaxLen = 3
  MaxOps = 3
  MaxPasses = 0
  Ops = {"add", "mul", "neg"}
  Acts = {"op", "flag"}
  LeafDims <- LD_scalar
INVARIANTS AdjFormsAgree StoreFormsAgree
CHECK_DEADLOCK FALSE
