---------------------------- MODULE AutodiffAbs ----------------------------
(***************************************************************************)
(* Property-level model of corgi's array layer: a heap of immutable nodes  *)
(* addressed through handles, per-node gradient slots, and the backward    *)
(* pass as ONE abstract step defined by a counter-free reference adjoint.  *)
(*                                                                         *)
(* The state is one record S = [nodes, grad, hd] and every public call is  *)
(* a pure operator S -> [st, S, ...], so that the same definitions are     *)
(* used by the model-checking specs (MC_*.tla: S' = Op(S, args) for        *)
(* nondeterministic args), by the case generators (Gen_*.tla) and by the   *)
(* trace validators (Trace*.tla: args bound from recorded events).         *)
(*                                                                         *)
(*   nodes : Seq([t, op, par, kids, buf, uid, kind])                       *)
(*           kids = Seq([n, trk, keep])  handles frozen at use             *)
(*           buf  = id of the value buffer (reshape views share it)        *)
(*           kind = "leaf" | "op" | "gradview" | "param"                   *)
(*   grad  : Seq(None | Some(tensor))   the slot shared by all clones      *)
(*   hd    : handle id -> [n, trk, keep]                                   *)
(***************************************************************************)
EXTENDS Naturals, Integers, Sequences, FiniteSets, TLC

CONSTANTS SAdd(_,_), SMul(_,_), SNeg(_), SDiv(_,_), SFn(_,_), SPow(_,_), SDPow(_,_), SZero, SOne,
          AdjCanon(_,_)   \* AdjCanon(n, t): the adjoint tensor of node n as carried on (identity, except in the
                          \* symbolic domain, where it is replaced by fresh symbols and its definition is emitted)

INSTANCE TensorCore

None == [none |-> TRUE]
Some(x) == [none |-> FALSE, x |-> x]
IsSome(o) == ~o.none

EmptyState == [nodes |-> <<>>, grad |-> <<>>, hd |-> <<>>, layers |-> <<>>, model |-> [on |-> FALSE]]

NodeT(S, n) == S.nodes[n].t
HandleT(S, h) == S.nodes[S.hd[h].n].t
Live(S) == DOMAIN S.hd
NodeIds(S) == 1..Len(S.nodes)

\* finite-function helpers (handle ids are positive integers; hd is a function on a finite set)
FnPut(f, k, v) == [x \in (DOMAIN f) \cup {k} |-> IF x = k THEN v ELSE f[x]]
FnDel(f, k) == [x \in (DOMAIN f) \ {k} |-> f[x]]

(***************************************************************************)
(* Construction                                                            *)
(***************************************************************************)
LeafOK(d, v) == ValidDims(d) /\ Prod(d) = Len(v)

AddNode(S, nd) == [S EXCEPT !.nodes = Append(S.nodes, nd), !.grad = Append(S.grad, None)]

MkNode(t, op, par, kids, buf, uid, kind) ==
  [t |-> t, op |-> op, par |-> par, kids |-> kids, buf |-> buf, uid |-> uid, kind |-> kind]

\* a fresh leaf with its own buffer; handle h; tracked() sets both flags
NewLeaf(S, h, t, trk, uid) ==
  LET n == Len(S.nodes) + 1
      S1 == AddNode(S, MkNode(t, "leaf", <<>>, <<>>, n, uid, "leaf"))
  IN [S1 EXCEPT !.hd = FnPut(S.hd, h, [n |-> n, trk |-> trk, keep |-> trk])]

(***************************************************************************)
(* Handles                                                                 *)
(***************************************************************************)
Clone(S, h, res) == [S EXCEPT !.hd = FnPut(S.hd, res, S.hd[h])]
Drop(S, h) == [S EXCEPT !.hd = FnDel(S.hd, h)]
\* tracked()/untracked() set both flags of this handle only; start/stop only the tracking flag
SetTracked(S, h, b) == [S EXCEPT !.hd = FnPut(S.hd, h, [n |-> S.hd[h].n, trk |-> b, keep |-> b])]
SetTrk(S, h, b) == [S EXCEPT !.hd = FnPut(S.hd, h, [S.hd[h] EXCEPT !.trk = b])]

(***************************************************************************)
(* Operations (C09 TrackedIff: the result is tracked, and records its      *)
(* operands, iff some operand handle is tracked)                           *)
(***************************************************************************)
OperandTs(S, hs) == [i \in 1..Len(hs) |-> HandleT(S, hs[i])]
AnyTracked(S, hs) == \E i \in 1..Len(hs) : S.hd[hs[i]].trk

ApplyStatus(S, op, par, hs) == Status(op, par, OperandTs(S, hs))

Apply(S, op, par, hs, res, uid) ==
  IF op = "sum" /\ par.k = 0 THEN Clone(S, hs[1], res)      \* sum(0) is the identity
  ELSE
  LET ts == OperandTs(S, hs)
      \* library operations: tracked iff some operand handle is tracked (C09);  a user operation given to
      \* Array::op is tracked, and records its operands, iff it comes with a derivative closure (par.bw)
      trk == IF "bw" \in DOMAIN par THEN par.bw ELSE AnyTracked(S, hs)
      n == Len(S.nodes) + 1
      kids == IF trk THEN [i \in 1..Len(hs) |-> S.hd[hs[i]]] ELSE <<>>
      buf == IF op = "reshape" THEN S.nodes[S.hd[hs[1]].n].buf ELSE n
      S1 == AddNode(S, MkNode(Forward(op, par, ts), op, par, kids, buf, uid, "op"))
  IN [S1 EXCEPT !.hd = FnPut(S.hd, res, [n |-> n, trk |-> trk, keep |-> trk])]

(***************************************************************************)
(* The backward pass (C01, C03, C09, C10, C11, C17)                        *)
(*                                                                         *)
(* RefAdj(S, root, seed)[n] is the complete adjoint of node n: the sum,    *)
(* over every consumer c of n that is itself reached and every operand     *)
(* position i at which c used n through a tracked handle, of the VJP of c  *)
(* at position i applied to c's complete adjoint.  Nodes are numbered in   *)
(* creation order, so consumers have larger ids than their operands and    *)
(* the definition goes down from the root.  No counters, no recursion      *)
(* order, no pending sums.                                                 *)
(***************************************************************************)
KidTs(S, c) == [i \in 1..Len(S.nodes[c].kids) |-> NodeT(S, S.nodes[c].kids[i].n)]

Contribution(S, c, i, adjc) == Vjp(S.nodes[c].op, S.nodes[c].par, KidTs(S, c), i, adjc)

Edges(S, n, root, prev) ==
  { p \in ((n+1)..root) \X (1..3) :
      /\ IsSome(prev[p[1]])
      /\ p[2] <= Len(S.nodes[p[1]].kids)
      /\ S.nodes[p[1]].kids[p[2]].n = n
      /\ S.nodes[p[1]].kids[p[2]].trk }

\* deterministic order so that sums are well-defined terms in the symbolic domain
RECURSIVE EdgeSeq(_)
EdgeSeq(E) == IF E = {} THEN <<>> ELSE
  LET p == CHOOSE p \in E : \A q \in E : p[1] > q[1] \/ (p[1] = q[1] /\ p[2] <= q[2])
  IN <<p>> \o EdgeSeq(E \ {p})

\* element-wise sum of a non-empty sequence of tensors of equal dims
SumTensors(cs) == T(cs[1].d, [k \in 1..Len(cs[1].v) |-> SumV([i \in 1..Len(cs) |-> cs[i].v[k]])])

\* the complete adjoint of node n given the adjoints acc of all nodes above it
AdjOf(S, n, root, acc) ==
  LET ps == EdgeSeq(Edges(S, n, root, acc)) IN
  IF ps = <<>> THEN None
  ELSE Some(AdjCanon(n, SumTensors([i \in 1..Len(ps) |-> Contribution(S, ps[i][1], ps[i][2], acc[ps[i][1]].x)] \o <<>>)))

\* THE DEFINITION (gather form): descending from the root, acc maps every node above n to None | Some(adjoint).
\* (Strict: the accumulated map is passed as a value, not re-evaluated at each level.)
RECURSIVE AdjDown(_,_,_,_)
AdjDown(S, root, n, acc) ==
  IF n = 0 THEN acc
  ELSE Strict(acc @@ (n :> AdjOf(S, n, root, acc)), LAMBDA a2 : AdjDown(S, root, n - 1, a2))
RefAdjDef(S, root, seed) == AdjDown(S, root, root - 1, (root :> Some(seed)))

\* The same function in scatter form, linear in the number of edges (the gather form scans all pairs of nodes,
\* which is quadratic - too slow for graphs of hundreds of nodes in trace validation).  Nodes are visited in
\* descending order, so when node c is visited every consumer of c has already delivered: its adjoint is
\* complete; it then adds its contributions to its tracked operands, in operand order.  Same summation order
\* as the gather form (consumers descending, positions ascending).  GenEngine!AdjFormsAgree makes TLC check
\* RefAdj = RefAdjDef on every graph and root of its bounded exploration.
PutAdj(acc, k, t) == [acc EXCEPT ![k] = IF acc[k].none THEN Some(t) ELSE Some(TAdd(acc[k].x, t))]
RECURSIVE ScatterKids(_,_,_,_)
ScatterKids(S, c, i, acc) ==
  IF i > Len(S.nodes[c].kids) THEN acc
  ELSE IF ~S.nodes[c].kids[i].trk THEN ScatterKids(S, c, i + 1, acc)
  ELSE Strict(PutAdj(acc, S.nodes[c].kids[i].n, Contribution(S, c, i, acc[c].x)),
              LAMBDA a2 : ScatterKids(S, c, i + 1, a2))
RECURSIVE AdjScatter(_,_,_)
AdjScatter(S, c, acc) ==
  IF c = 0 THEN acc
  ELSE IF acc[c].none THEN AdjScatter(S, c - 1, acc)
  ELSE Strict(IF c = Len(acc) THEN acc ELSE [acc EXCEPT ![c] = Some(AdjCanon(c, acc[c].x))],
              LAMBDA a1 : Strict(ScatterKids(S, c, 1, a1), LAMBDA a2 : AdjScatter(S, c - 1, a2)))
RefAdj(S, root, seed) == AdjScatter(S, root, [n \in 1..root |-> IF n = root THEN Some(seed) ELSE None])

SeedOf(S, h, seedOpt) == IF seedOpt.none THEN Ones(HandleT(S, h).d) ELSE seedOpt.x

\* which reached nodes store the adjoint into their gradient slot
HasKids(S, n) == S.nodes[n].kids # <<>>
AllKeep(S, n, root, adj) ==
  \A p \in Edges(S, n, root, adj) : S.nodes[p[1]].kids[p[2]].keep
MustStore(S, h, adj, n) ==
  LET root == S.hd[h].n IN
  /\ n <= root /\ IsSome(adj[n])
  /\ \/ ~HasKids(S, n)
     \/ IF n = root THEN S.hd[h].keep ELSE AllKeep(S, n, root, adj)
MayStore(S, h, adj, n) ==
  /\ n <= S.hd[h].n /\ IsSome(adj[n]) /\ ~MustStore(S, h, adj, n)

Accumulate(g, a) == IF g.none THEN a ELSE Some(TAdd(g.x, a.x))

\* nodes used, inside the pass, through at least one tracked handle WITHOUT keep (one scan of the edges)
WeakKids(S, root, adj) ==
  UNION { { S.nodes[c].kids[i].n : i \in { j \in 1..Len(S.nodes[c].kids) : S.nodes[c].kids[j].trk /\ ~S.nodes[c].kids[j].keep } }
          : c \in { m \in 1..root : IsSome(adj[m]) } }
\* MustStore / MayStore given weak = WeakKids(S, root, adj)  (same predicates, linear instead of quadratic)
MustStoreW(S, h, adj, weak, n) ==
  LET root == S.hd[h].n IN
  /\ n <= root /\ IsSome(adj[n])
  /\ \/ ~HasKids(S, n)
     \/ IF n = root THEN S.hd[h].keep ELSE n \notin weak
MayStoreW(S, h, adj, weak, n) == n <= S.hd[h].n /\ IsSome(adj[n]) /\ ~MustStoreW(S, h, adj, weak, n)

\* the abstract pass; `stored` is the set of may-store nodes that do store
\* (BackwardWith takes the reference adjoint adj = RefAdj(S, root, seed) computed by the caller)
BackwardWith(S, h, adj, stored) ==
  LET root == S.hd[h].n
      weak == WeakKids(S, root, adj) IN
  [S EXCEPT !.grad = [n \in 1..Len(S.nodes) |->
                        IF n <= root /\ IsSome(adj[n]) /\ (MustStoreW(S, h, adj, weak, n) \/ n \in stored)
                        THEN Accumulate(S.grad[n], adj[n]) ELSE S.grad[n]]]
Backward(S, h, seedOpt, stored) ==
  BackwardWith(S, h, RefAdj(S, S.hd[h].n, SeedOf(S, h, seedOpt)), stored)

\* derivative evaluations of the pass (C11): every reached node that has operands,
\* exactly once, with its complete adjoint
EvaluatedWith(S, h, adj) == { n \in 1..S.hd[h].n : IsSome(adj[n]) /\ HasKids(S, n) }
Evaluated(S, h, seedOpt) == EvaluatedWith(S, h, RefAdj(S, S.hd[h].n, SeedOf(S, h, seedOpt)))
\* in-pass consumers of n
Consumers(S, n, root, adj) == { p[1] : p \in Edges(S, n, root, adj) }

(***************************************************************************)
(* Gradient slots                                                          *)
(***************************************************************************)
ClearGrad(S, h) == [S EXCEPT !.grad[S.hd[h].n] = None]
SetGrad(S, h, t) == [S EXCEPT !.grad[S.hd[h].n] = Some(t)]
\* a handle on the stored gradient array: a plain untracked array (GradPlain)
FetchGrad(S, h, res, uid) ==
  LET n == Len(S.nodes) + 1
      S1 == AddNode(S, MkNode(S.grad[S.hd[h].n].x, "leaf", <<>>, <<>>, n, uid, "gradview"))
  IN [S1 EXCEPT !.hd = FnPut(S.hd, res, [n |-> n, trk |-> FALSE, keep |-> FALSE])]

(***************************************************************************)
(* Ownership (C18 NoLeak).  The buffer of node n is referenced by every    *)
(* live handle on a node with that buffer and by the operand lists of      *)
(* alive nodes; nothing else (no gradient, no finished pass, no dropped    *)
(* result) may hold it.                                                    *)
(***************************************************************************)
KidSet(S, n) == { S.nodes[n].kids[i].n : i \in 1..Len(S.nodes[n].kids) }
RECURSIVE ReachKids(_,_,_)
ReachKids(S, front, seen) ==
  IF front = {} THEN seen ELSE
  Strict(<<(UNION { KidSet(S, n) : n \in front }) \ (seen \cup front), seen \cup front>>,
         LAMBDA p : ReachKids(S, p[1], p[2]))
Alive(S, hs) == ReachKids(S, { S.hd[o].n : o \in hs }, {})

\* Vec::from(h) MUST succeed: h is the only handle or view on its buffer, the node holds
\* no graph of its own, and no alive node lists the buffer among its operands
MustOwn(S, h) ==
  LET n == S.hd[h].n
      b == S.nodes[n].buf
      others == Live(S) \ {h}
  IN /\ S.nodes[n].kids = <<>>
     /\ S.nodes[n].kind = "leaf"
     /\ \A o \in others : S.nodes[S.hd[o].n].buf # b
     /\ \A m \in Alive(S, others) : \A k \in KidSet(S, m) : S.nodes[k].buf # b
IntoVec(S, h) == Drop(S, h)

(***************************************************************************)
(* Gradient descent (C13): parameters that hold a gradient g are replaced  *)
(* by fresh tracked arrays old - lr*g with an empty slot; the others are   *)
(* untouched.  Positions are processed in order (a second handle on the    *)
(* same array sees the slot already emptied).                              *)
(***************************************************************************)
UpdateOne(S, h, lr, uid) ==
  LET n == S.hd[h].n IN
  IF S.grad[n].none THEN S
  ELSE LET new == T(S.nodes[n].t.d,
                    [k \in 1..Len(S.nodes[n].t.v) |->
                       SAdd(S.nodes[n].t.v[k], SNeg(SMul(lr, S.grad[n].x.v[k])))])
           m == Len(S.nodes) + 1
           S1 == AddNode([S EXCEPT !.grad[n] = None], MkNode(new, "leaf", <<>>, <<>>, m, uid, "leaf"))
       IN [S1 EXCEPT !.hd = FnPut(S1.hd, h, [n |-> m, trk |-> TRUE, keep |-> TRUE])]
RECURSIVE Update(_,_,_,_)
Update(S, hs, lr, uid) ==
  IF hs = <<>> THEN S
  ELSE Strict(UpdateOne(S, Head(hs), lr, uid), LAMBDA S2 : Update(S2, Tail(hs), lr, uid))

=============================================================================
