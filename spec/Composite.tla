----------------------------- MODULE Composite -----------------------------
(***************************************************************************)
(* The operations the crate BUILDS OUT OF OTHER OPERATIONS, written the    *)
(* way the code composes them (one definition per Rust function, loops     *)
(* transcribed as index formulas), with the gradient obtained by chaining  *)
(* the VJPs of the parts in reverse - what the engine does on the several  *)
(* graph nodes such a call creates:                                        *)
(*   a - b         = a + (-b)                          arithmetic.rs:201   *)
(*   softmax(a)    = exp(a) / sum(exp(a), 1)           nonlinearity.rs:66  *)
(*   mse(o, t)     = (1/N) * powf(t + (-o), 2)         cost.rs:11          *)
(*   xent(o, t)    = (1/B) * ((-t) * ln(o))            cost.rs:20          *)
(*   conv(x, f, s) = expand_conv(matmul(unroll_blocks(x), reshape(f)^T))   *)
(*                                                     image.rs:5-277      *)
(* AutodiffAbs / ModelAbs / the validators treat each of these as ONE node *)
(* with the definition of TensorCore (Sub, Softmax, Mse, Xent, Conv and    *)
(* their Vjp).  MC_Composite has TLC check, case by case over a bounded    *)
(* space, that the composition and its chained gradient equal that single  *)
(* node - the lemma that makes the one-node abstraction sound, and the     *)
(* place where a wrong decomposition (a non-accumulating roll as the       *)
(* derivative of unroll, a bias of the wrong layout) shows up as a design  *)
(* error rather than as a number that differs in a run.                    *)
(***************************************************************************)
EXTENDS TensorCore

\* ---- a - b = a + (-b)
SubImpl(a, b) == Forward("add", <<>>, <<a, Forward("neg", <<>>, <<b>>)>>)
SubImplVjp(a, b, i, s) ==
  LET nb == Forward("neg", <<>>, <<b>>) IN
  IF i = 1 THEN Vjp("add", <<>>, <<a, nb>>, 1, s)
  ELSE Vjp("neg", <<>>, <<b>>, 1, Vjp("add", <<>>, <<a, nb>>, 2, s))

\* ---- softmax(a) = e / sum(e, 1) with e = exp(a); e is used twice (fan-out inside the composite)
SoftmaxImpl(a) ==
  LET e == Forward("exp", <<>>, <<a>>) IN Forward("div", <<>>, <<e, Forward("sum", [k |-> 1], <<e>>)>>)
SoftmaxImplVjp(a, s) ==
  LET e == Forward("exp", <<>>, <<a>>)
      z == Forward("sum", [k |-> 1], <<e>>)
      g1 == Vjp("div", <<>>, <<e, z>>, 1, s)                         \* through the numerator
      g2 == Vjp("sum", [k |-> 1], <<e>>, 1, Vjp("div", <<>>, <<e, z>>, 2, s))   \* through the row sums
  IN Vjp("exp", <<>>, <<a>>, 1, TAdd(g1, g2))

\* ---- mse(o, t) = (1/N) * (t + (-o))^2, N = element count of the output
P2 == [p |-> [n |-> 2]]
MseImpl(o, t, invN) ==
  LET d == SubImpl(t, o) IN Forward("scale", [c |-> invN], <<Forward("powf", P2, <<d>>)>>)
MseImplVjp(o, t, invN, i, s) ==
  LET d == SubImpl(t, o)
      q == Forward("powf", P2, <<d>>)
      gd == Vjp("powf", P2, <<d>>, 1, Vjp("scale", [c |-> invN], <<q>>, 1, s))
  IN SubImplVjp(t, o, IF i = 1 THEN 2 ELSE 1, gd)

\* ---- xent(o, t) = (1/B) * ((-t) * ln(o)), B = leading dimension of the output
XentImpl(o, t, invB) ==
  Forward("scale", [c |-> invB], <<Forward("mul", <<>>, <<Forward("neg", <<>>, <<t>>), Forward("ln", <<>>, <<o>>)>>)>>)
XentImplVjp(o, t, invB, i, s) ==
  LET nt == Forward("neg", <<>>, <<t>>)
      lo == Forward("ln", <<>>, <<o>>)
      m == Forward("mul", <<>>, <<nt, lo>>)
      gm == Vjp("scale", [c |-> invB], <<m>>, 1, s)
  IN IF i = 1 THEN Vjp("ln", <<>>, <<o>>, 1, Vjp("mul", <<>>, <<nt, lo>>, 2, gm))
     ELSE Vjp("neg", <<>>, <<t>>, 1, Vjp("mul", <<>>, <<nt, lo>>, 1, gm))

(***************************************************************************)
(* Convolution as the code computes it.                                    *)
(***************************************************************************)
\* unroll_blocks: one row per window (row-major over window positions), each row = depth x frows x fcols
UnrollShape(di, sr, sc, fr, fc) ==
  LET n == Len(di) dp == di[n-2] ir == di[n-1] ic == di[n]
      rc == ((ir - fr) \div sr) + 1  cc == ((ic - fc) \div sc) + 1
  IN [lead |-> FirstN(di, n-3), dp |-> dp, ir |-> ir, ic |-> ic, rc |-> rc, cc |-> cc,
      od |-> FirstN(di, n-3) \o <<rc * cc, dp * fr * fc>>]
Unroll(img, sr, sc, fr, fc) ==
  LET sh == UnrollShape(img.d, sr, sc, fr, fc)
      row == sh.dp * fr * fc  per == sh.rc * sh.cc * row  isz == sh.dp * sh.ir * sh.ic
  IN T(sh.od, [p \in 1..(Prod(sh.lead) * per) |->
       LET b == (p-1) \div per  o == (p-1) % per
           w == o \div row  r == w \div sh.cc  c == w % sh.cc
           q == o % row  k == q \div (fr*fc)  m == (q % (fr*fc)) \div fc  n == q % fc
       IN img.v[b*isz + (n + sc*c) + sh.ic*((m + sr*r) + sh.ir*k) + 1]])

\* roll_blocks_with: every element (i, j) of the unrolled array is written (acc = FALSE: the last write stays)
\* or added (acc = TRUE) at RollIdx(i, j) of the image
RollIdx(i, j, ir, ic, sr, sc, fr, fc) ==
  LET cc == ((ic - fc) \div sc) + 1  usz == fr * fc
      depth == j \div usz  fi == j % usz
  IN (fi % fc) + ic * (fi \div fc) + ir * ic * depth + ic * sr * (i \div cc) + sc * (i % cc)
RollWith(u, dp, ir, ic, sr, sc, fr, fc, acc) ==
  LET n == Len(u.d)  cnt == u.d[n-1]  row == dp * fr * fc  per == cnt * row  isz == dp * ir * ic
      lead == FirstN(u.d, n-2)
      Hits(p) == SelectSeq([q \in 1..per |-> q - 1],
                           LAMBDA q : RollIdx(q \div row, q % row, ir, ic, sr, sc, fr, fc) = p)
  IN T(lead \o <<dp, ir, ic>>, [x \in 1..(Prod(lead) * isz) |->
       LET b == (x-1) \div isz  h == Hits((x-1) % isz)
       IN IF acc THEN SumV([t \in 1..Len(h) |-> u.v[b*per + h[t] + 1]])
          ELSE IF Len(h) = 0 THEN SZero ELSE u.v[b*per + h[Len(h)] + 1]])

\* expand_conv: [lead..., windows, count] -> [lead..., count, out rows, out cols]
ExpandConv(x, rc, cc) ==
  LET n == Len(x.d)  cnt == x.d[n]  stride == rc * cc  nb == Len(x.v) \div (cnt * stride)
  IN T(FirstN(x.d, n-2) \o <<cnt, rc, cc>>, [p \in 1..Len(x.v) |->
       LET b == (p-1) \div (cnt*stride)  k == ((p-1) % (cnt*stride)) \div stride  i == (p-1) % stride
       IN x.v[k + cnt * (i + stride * b) + 1]])
ExpandVjp(s, xd, rc, cc) ==
  LET cnt == xd[Len(xd)]  stride == rc * cc
  IN T(xd, [q \in 1..Len(s.v) |->
       LET b == (q-1) \div (cnt*stride)  i == ((q-1) % (cnt*stride)) \div cnt  k == (q-1) % cnt
       IN s.v[(b*cnt + k)*stride + i + 1]])

ConvParts(img, flt, sr, sc) ==
  LET nf == Len(flt.d)  fr == flt.d[nf-1]  fc == flt.d[nf]
      sh == UnrollShape(img.d, sr, sc, fr, fc)
      u == Unroll(img, sr, sc, fr, fc)
      fm == Reshape(flt, FirstN(flt.d, nf-3) \o <<sh.dp * fr * fc>>)
  IN [sh |-> sh, fr |-> fr, fc |-> fc, u |-> u, fm |-> fm, mm |-> Matmul(u, FALSE, fm, TRUE, NoTerm)]
ConvImpl(img, flt, sr, sc) ==
  LET p == ConvParts(img, flt, sr, sc) IN ExpandConv(p.mm, p.sh.rc, p.sh.cc)
\* acc = TRUE is the code; acc = FALSE is the tidy-looking "unrolling is undone by rolling" variant
ConvImplVjp(img, flt, sr, sc, i, s, acc) ==
  LET p == ConvParts(img, flt, sr, sc)
      g == ExpandVjp(s, p.mm.d, p.sh.rc, p.sh.cc)
  IN IF i = 1 THEN RollWith(MatmulVjpA(p.u, FALSE, p.fm, TRUE, g), p.sh.dp, p.sh.ir, p.sh.ic, sr, sc, p.fr, p.fc, acc)
     ELSE Reshape(MatmulVjpB(p.u, FALSE, p.fm, TRUE, g), flt.d)

(***************************************************************************)
(* The layers (dense.rs:44-56, conv.rs:53-65) before their activation.     *)
(***************************************************************************)
DenseImpl(x, w, b) == Matmul(x, FALSE, w, TRUE, b)
\* the conv layer adds one bias per filter: the bias array is constructed with dims [count, 1, 1]
ConvLayerImpl(x, f, b, sr, sc) == Add(ConvImpl(x, f, sr, sc), b)
\* "one bias per filter" said directly
ConvLayerDef(x, f, b, sr, sc) ==
  LET y == Conv(x, f, sr, sc)  n == Len(y.d)  per == y.d[n-1] * y.d[n]  cnt == y.d[n-2]
  IN T(y.d, [p \in 1..Len(y.v) |-> SAdd(y.v[p], b.v[(((p-1) \div per) % cnt) + 1])])
=============================================================================
