-------------------------- MODULE AutodiffAbsSpec --------------------------
(***************************************************************************)
(* The property-level specification as a TLA+ behaviour specification:     *)
(* one variable aS (the abstract state of AutodiffAbs), one ATOMIC action  *)
(* per public call.  MC_Engine checks that the implementation-shaped pass  *)
(* (AutodiffImpl: counters, pending sums, recursion stack, many steps per  *)
(* pass) IMPLEMENTS this specification under the refinement mapping        *)
(*        aS <- IF the pass is idle THEN S ELSE the state at pass begin    *)
(* i.e. all the steps of a pass but the last are stuttering steps and the  *)
(* last one is the abstract Pass action (PROPERTY AbsRefined).             *)
(***************************************************************************)
EXTENDS Naturals, Integers, Sequences, FiniteSets, TLC

CONSTANTS SAdd(_,_), SMul(_,_), SNeg(_), SDiv(_,_), SFn(_,_), SPow(_,_), SDPow(_,_), SZero, SOne, AdjCanon(_,_),
          Ops, Variants, Seeds(_)

INSTANCE AutodiffAbs

VARIABLE aS

AHandlesOf(n) == { 3*(n-1)+k : k \in Variants }
AFlagsOf(k) == IF k = 1 THEN [trk |-> FALSE, keep |-> FALSE]
               ELSE IF k = 2 THEN [trk |-> TRUE, keep |-> TRUE] ELSE [trk |-> TRUE, keep |-> FALSE]
AWithHandles(S0, n) ==
  [S0 EXCEPT !.hd = [h \in (DOMAIN S0.hd \ {0}) \cup AHandlesOf(n) |->
                       IF h \in AHandlesOf(n)
                       THEN [n |-> n, trk |-> AFlagsOf(h - 3*(n-1)).trk, keep |-> AFlagsOf(h - 3*(n-1)).keep]
                       ELSE S0.hd[h]]]
AArity(op) == IF op \in {"neg", "csq"} THEN 1 ELSE IF op = "cfma" THEN 3 ELSE 2
ATuples(k) == IF k = 1 THEN { <<a>> : a \in DOMAIN aS.hd }
              ELSE IF k = 2 THEN (DOMAIN aS.hd) \X (DOMAIN aS.hd)
              ELSE (DOMAIN aS.hd) \X (DOMAIN aS.hd) \X (DOMAIN aS.hd)

\* an operation allocates one node (and its handles); nothing else changes.
\* (The witnesses are read off the new node so that TLC does not have to try every operand tuple: the
\*  operation tag, and - when the node recorded its operands - the operand handles themselves.)
AHandleOf(k) == 3 * (k.n - 1) + (IF ~k.trk THEN 1 ELSE IF k.keep THEN 2 ELSE 3)
ABuild ==
  /\ Len(aS'.nodes) = Len(aS.nodes) + 1
  /\ LET nd == aS'.nodes[Len(aS'.nodes)] IN
     /\ nd.op \in Ops
     /\ \E hs \in (IF nd.kids # <<>> THEN { [i \in 1..Len(nd.kids) |-> AHandleOf(nd.kids[i])] }
                   ELSE ATuples(AArity(nd.op))) :
          /\ \A i \in 1..Len(hs) : hs[i] \in DOMAIN aS.hd
          /\ ApplyStatus(aS, nd.op, <<>>, hs) = "ok"
          /\ aS' = AWithHandles(Apply(aS, nd.op, <<>>, hs, 0, Len(aS.nodes) + 1), Len(aS.nodes) + 1)
\* backward(seed) on a handle is ONE step: must-store nodes accumulate the reference adjoint,
\* may-store nodes either do or do not
APass == /\ aS'.nodes = aS.nodes /\ aS'.hd = aS.hd /\ aS'.grad # aS.grad
         /\ \E h \in DOMAIN aS.hd :
            \E seedOpt \in {None} \cup { Some(s) : s \in Seeds(HandleT(aS, h).d) } :
           LET adj == RefAdj(aS, aS.hd[h].n, SeedOf(aS, h, seedOpt))
               may == { n \in 1..aS.hd[h].n : MayStore(aS, h, adj, n) }
           IN \E stored \in SUBSET may : aS' = BackwardWith(aS, h, adj, stored)
AClear == /\ aS'.nodes = aS.nodes /\ aS'.hd = aS.hd
          /\ \E n \in 1..Len(aS.nodes) : IsSome(aS.grad[n]) /\ aS' = [aS EXCEPT !.grad[n] = None]

ANext == ABuild \/ APass \/ AClear
=============================================================================
