SPECIFICATION MCSpec
CONSTANTS
  MaxOps = 3
  MaxPasses = 1
  Ops = {"add", "mul"}
  Guard = TRUE
  LeafKind = "bc"
  Variants = {1, 2}
INVARIANTS NoResidue CntNonNeg EvalOnce EvalComplete EvalAll PassRefinesAbs GradShape
PROPERTY Immutable
CHECK_DEADLOCK FALSE
