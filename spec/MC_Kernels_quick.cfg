SPECIFICATION FairSpec
CONSTANTS
  MaxRank = 3
  MaxSize = 2
  MatSizes = {1, 2}
  Variant = "code"
INVARIANT KernelRefines
INVARIANT RefusesExactly
INVARIANT TypeOK
PROPERTY Terminates
CHECK_DEADLOCK FALSE
