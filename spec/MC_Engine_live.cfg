SPECIFICATION MCFair
CONSTANTS
  MaxOps = 2
  MaxPasses = 1
  Ops = {"add", "mul"}
  Guard = TRUE
  LeafKind = "scalar"
  Variants = {1, 2}
PROPERTY PassesFinish
CHECK_DEADLOCK FALSE
