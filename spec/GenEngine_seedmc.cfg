SPECIFICATION Spec
CONSTANTS
  MaxLen = 2
  MaxOps = 2
  MaxPasses = 0
  Ops = {"add", "mul", "neg"}
  Acts = {"op"}
  LeafDims <- LD_bcast
INVARIANTS SeedLinear
CHECK_DEADLOCK FALSE
