SPECIFICATION Spec
CONSTANTS
  MaxLen = 5
  MaxOps = 2
  MaxPasses = 1
  Ops = {"mul"}
  Acts = {"op", "backward", "drop", "own"}
  LeafDims <- LD_scalar
INVARIANT Emit
CHECK_DEADLOCK FALSE
