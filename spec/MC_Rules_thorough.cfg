SPECIFICATION Spec
CONSTANTS
  MaxRank = 3
  MaxSize = 3
  MatSizes = {1, 2, 3}
  ConvMax = 4
INVARIANT RuleOK
CHECK_DEADLOCK FALSE
