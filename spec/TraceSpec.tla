----------------------------- MODULE TraceSpec -----------------------------
(***************************************************************************)
(* Total trace validator.  Reads the events the executor recorded from the *)
(* real library (one JSON object per API step) and replays them through    *)
(* the operators of AutodiffAbs / ModelAbs: every event binds the action's *)
(* arguments, the action gives the specified next state, and the recorded  *)
(* observation must equal the projection of that state.                    *)
(*                                                                         *)
(* The validator is TOTAL: a disagreement is reported                      *)
(*      <<"MISMATCH", case, event index, op, reason>>                      *)
(* and the rest of that case is skipped (resynchronisation at the next     *)
(* "reset"), so one violation does not hide the others.  Where the         *)
(* specification is deliberately nondeterministic (may-store nodes) the    *)
(* observed alternative is adopted.  The whole file must be consumed       *)
(* (POSTCONDITION Accepted).                                               *)
(*                                                                         *)
(* Generic in the value domain: TIn/TMatch/SIn/SMatch/SGt/Canon are bound  *)
(* by TraceExact (dyadic, bit-exact) and TraceReal (symbolic terms).       *)
(***************************************************************************)
EXTENDS Naturals, Integers, Sequences, FiniteSets, TLC, Json, IOUtils

CONSTANTS SAdd(_,_), SMul(_,_), SNeg(_), SDiv(_,_), SFn(_,_), SPow(_,_), SDPow(_,_), SZero, SOne, AdjCanon(_,_),
          TIn(_),        \* observed/recorded tensor (JSON record) -> tensor of the domain
          TMatch(_,_),   \* TMatch(obs, t): does the observation equal the specified tensor
          SIn(_),        \* scalar parameter (JSON record) -> scalar
          SMatch(_,_),   \* SMatch(obs, x)
          SGt(_,_,_),    \* SGt(x, thr, observed): is x > thr (domains that cannot decide adopt `observed`)
          PIn(_),        \* exponent descriptor
          Canon(_,_),    \* Canon(n, t): the tensor stored for node n (symbolic domain: fresh symbols + definition)
          ApproxEq(_,_,_,_,_),  \* ApproxEq(kind, a, b, eps, rel): "T" | "F" | "unspec"  (AbsDiffEq / RelativeEq of two tensors)
          Tainted(_),    \* Tainted(t): the specified tensor left the exact domain (poison value)
          Exact,         \* BOOLEAN: values are decided by this validator
          Rec            \* the recorded events (sequence of records)

INSTANCE ModelAbs


VARIABLES l, S, dig, skip, lastcmp, stats
vars == <<l, S, dig, skip, lastcmp, stats>>

Stats0 == [cases |-> 0, bad |-> 0, unspec |-> 0, judged |-> 0, refusals |-> 0, passes |-> 0,
           evals |-> 0, owned |-> 0, adopted |-> 0, updates |-> 0, skipped |-> 0, left |-> 0, drift |-> 0]

Init == /\ l = 1 /\ S = EmptyState /\ dig = <<>> /\ skip = FALSE /\ lastcmp = FALSE /\ stats = Stats0

Has(e, f) == f \in DOMAIN e
Fld(e, f, dflt) == IF f \in DOMAIN e THEN e[f] ELSE dflt

Report(e, why) == PrintT(<<"MISMATCH", e.case, e.i, e.op, why>>)

(***************************************************************************)
(* Observation of the live handles                                         *)
(***************************************************************************)
Hidden == {0}                       \* the model's retained output
ObsIdx(e, h) == CHOOSE i \in 1..Len(e.live) : e.live[i].h = h
ObsOf(e, h) == e.live[ObsIdx(e, h)]
ObsHandles(e) == { e.live[i].h : i \in 1..Len(e.live) }

\* "" or the first reason the live section contradicts state S2 / digests dig2
CheckLive(e, S2, dig2) ==
  LET hs == (DOMAIN S2.hd) \ Hidden IN
  IF Has(e, "noobs") THEN ""           \* a quiet step: the harness did not look (the state is carried on by the specification)
  ELSE IF ObsHandles(e) # hs THEN "live-set"
  ELSE IF \E h \in hs : ObsOf(e, h).x # dig2[h] THEN "immutable"
  ELSE IF \E h \in hs : ObsOf(e, h).t # S2.hd[h].trk THEN "tracked-flag"
  ELSE IF \E h \in hs : ObsOf(e, h).g # IsSome(S2.grad[S2.hd[h].n]) THEN "grad-presence"
  ELSE IF \E h \in hs : Has(ObsOf(e, h), "gt") /\ ObsOf(e, h).gt.d # S2.grad[S2.hd[h].n].x.d THEN "grad-dims"
  ELSE IF \E h \in hs : Has(ObsOf(e, h), "gt") /\ ~TMatch(ObsOf(e, h).gt, S2.grad[S2.hd[h].n].x) THEN "grad-value"
  ELSE IF \E h \in hs : Has(ObsOf(e, h), "gtrk") /\ ObsOf(e, h).gtrk THEN "grad-tracked"
  ELSE ""

(***************************************************************************)
(* Judgement of one event: [why, S, dig, cmp, unspec, st]                  *)
(*   why = "" accepted so far (the live section is checked afterwards)     *)
(***************************************************************************)
J(why, S2, dig2) == [why |-> why, S |-> S2, dig |-> dig2, cmp |-> lastcmp, unspec |-> FALSE, left |-> FALSE, st |-> <<>>]
JS(why, S2, dig2, st) == [why |-> why, S |-> S2, dig |-> dig2, cmp |-> lastcmp, unspec |-> FALSE, left |-> FALSE, st |-> st]
Bad(why) == J(why, S, dig)
Unspec == [why |-> "", S |-> S, dig |-> dig, cmp |-> lastcmp, unspec |-> TRUE, left |-> FALSE, st |-> <<>>]
\* the specified values left the exact domain: nothing is judged from here on in this case
LeftExact == [Unspec EXCEPT !.left = TRUE]
GradsTainted(S2) == \E n \in 1..Len(S2.grad) : IsSome(S2.grad[n]) /\ Tainted(S2.grad[n].x)

DigPut(d, h, x) == [k \in (DOMAIN d) \cup {h} |-> IF k = h THEN x ELSE d[k]]
DigDel(d, h) == [k \in (DOMAIN d) \ {h} |-> d[k]]

\* a step that creates handle e.res on a fresh node whose specified tensor is t, next state S2
NewValue(e, S2, t, st) ==
  IF Tainted(t) THEN LeftExact
  ELSE IF e.panic THEN Bad("unexpected-panic")
  ELSE IF ~Has(e, "new") THEN Bad("no-result")
  ELSE IF e.new.d # t.d THEN Bad("dims")
  ELSE IF ~TMatch(e.new, t) THEN Bad("values")
  ELSE JS("", S2, DigPut(dig, e.res, e.new.x), st)

ParOf(e) ==
  CASE e.op \in {"scale", "scale_l"} -> [c |-> SIn(e.c)]
    [] e.op = "axpy" -> [alpha |-> SIn(e.alpha)]
    [] e.op = "powf" -> [p |-> PIn(e.p)]
    [] e.op = "sum" -> [k |-> e.k]
    [] e.op = "reshape" -> [d |-> e.d]
    [] e.op = "matmul" -> [ta |-> e.ta, tb |-> e.tb]
    [] e.op = "conv" -> [sr |-> e.sr, sc |-> e.sc]
    [] e.op \in {"cadd", "cmul", "csq", "cfma"} -> [bw |-> e.bw]
    [] OTHER -> <<>>
OpName(e) == IF e.op = "scale_l" THEN "scale" ELSE IF e.op = "cost" THEN (IF e.kind = "mse" THEN "mse" ELSE "xent") ELSE e.op

CustomOps == {"cadd", "cmul", "csq", "cfma"}
DiffOps == {"add", "sub", "mul", "div", "axpy", "neg", "scale", "scale_l", "powf", "recip", "ln", "exp",
            "sum", "reshape", "matmul", "conv", "relu", "sigmoid", "softmax", "cost", "clib"} \cup CustomOps

\* store the canonical tensor of the newest node (symbolic domain: symbols)
CanonLast(S2) == LET n == Len(S2.nodes) IN [S2 EXCEPT !.nodes[n].t = Canon(n, S2.nodes[n].t)]

JudgeApply(e) ==
  \* Array::op WITHOUT a derivative, forward closure x0 * x0 + x1 written with library operations: the result is
  \* whatever those operations record - two ordinary nodes, the intermediate one without a handle
  IF e.op = "clib" THEN
     (IF HandleT(S, e.args[1]).d # HandleT(S, e.args[2]).d THEN Unspec
      ELSE LET S1 == Apply(S, "mul", <<>>, <<e.args[1], e.args[1]>>, TmpA, e.i)
               S2 == Drop(Apply(S1, "add", <<>>, <<TmpA, e.args[2]>>, e.res, e.i), TmpA)
           IN NewValue(e, CanonLast(S2), S2.nodes[Len(S2.nodes)].t, <<"judged">>))
  ELSE
  LET op == OpName(e)  par == ParOf(e)
      st == ApplyStatus(S, op, par, e.args)
  IN IF st = "unspec" THEN Unspec
     ELSE IF st = "refuse" THEN (IF e.panic THEN JS("", S, dig, <<"refusals">>) ELSE Bad("expected-refusal"))
     ELSE IF op = "sum" /\ par.k = 0 THEN
          (IF e.panic THEN Bad("unexpected-panic")
           ELSE IF ~TMatch(e.new, HandleT(S, e.args[1])) THEN Bad("values")
           ELSE J("", Clone(S, e.args[1], e.res), DigPut(dig, e.res, e.new.x)))
     ELSE LET S2 == Apply(S, op, par, e.args, e.res, e.i)
          IN NewValue(e, CanonLast(S2), S2.nodes[Len(S2.nodes)].t, <<"judged">>)

IsGradView(h) == S.nodes[S.hd[h].n].kind = "gradview"

JudgeBackward(e) ==
  IF IsGradView(e.args[1]) THEN Unspec      \* identity of fetched gradient arrays is not specified
  \* a caller-held borrow of a gradient slot may make the pass panic (then the state is not specified); if it
  \* returns normally it must have done the whole job
  ELSE IF e.panic /\ Has(e, "hold") THEN Unspec
  ELSE IF e.panic THEN Bad(IF e.budget_left < 0 THEN "eval-budget-exhausted" ELSE "backward-panic") ELSE
  LET h == e.args[1]
      root == S.hd[h].n
      seedOpt == IF Has(e, "seedh") THEN Some(HandleT(S, e.seedh))       \* a clone of a live array is the seed
                 ELSE IF Has(e, "seedv") THEN Some(T(e.seedd, HandleT(S, e.seedv).v))   \* a reshaped view of a live array
                 ELSE IF Has(e, "seed") THEN Some(TIn(e.seed)) ELSE None
      adj == RefAdj(S, root, SeedOf(S, h, seedOpt))
      plus(n) == Accumulate(S.grad[n], adj[n])
      \* adopt the observed alternative for may-store nodes
      seen(n) == \E hh \in (DOMAIN S.hd) \ Hidden :
                    /\ S.hd[hh].n = n /\ hh \in ObsHandles(e)
                    /\ ObsOf(e, hh).g /\ (IsSome(S.grad[n]) => (Has(ObsOf(e, hh), "gt") /\ Exact /\ TMatch(ObsOf(e, hh).gt, plus(n).x)))
      weak == WeakKids(S, root, adj)
      stored == { n \in 1..root : MayStoreW(S, h, adj, weak, n) /\ seen(n) }
      S2 == BackwardWith(S, h, adj, stored)
      \* derivative invocations of user operations (C11)
      expectU == { S.nodes[n].uid : n \in { m \in EvaluatedWith(S, h, adj) : S.nodes[m].op \in CustomOps } }
      nodeOf(u) == CHOOSE n \in 1..root : S.nodes[n].uid = u /\ S.nodes[n].op \in CustomOps
      evs == e.evals
      gotU == { evs[i].u : i \in 1..Len(evs) }
      badOrder == \E i \in 1..Len(evs) :
                     \E c \in Consumers(S, nodeOf(evs[i].u), root, adj) :
                        S.nodes[c].op \in CustomOps /\ ~\E j \in 1..(i-1) : evs[j].u = S.nodes[c].uid
  IN IF seedOpt # None /\ seedOpt.x.d # HandleT(S, h).d THEN Unspec
     ELSE IF GradsTainted(S2) \/ \E n \in 1..root : IsSome(adj[n]) /\ Tainted(adj[n].x) THEN LeftExact
     ELSE IF gotU # expectU THEN Bad("eval-set")
     ELSE IF Len(evs) # Cardinality(expectU) THEN Bad("eval-once")
     ELSE IF \E i \in 1..Len(evs) : ~TMatch(evs[i].adj, adj[nodeOf(evs[i].u)].x) THEN Bad("eval-adjoint")
     ELSE IF badOrder THEN Bad("eval-order")
     \* the closure receives the tracked-at-use flags of its operands (the documented &[bool] argument)
     ELSE IF \E i \in 1..Len(evs) : Has(evs[i], "t") /\
               evs[i].t # [k \in 1..Len(S.nodes[nodeOf(evs[i].u)].kids) |-> S.nodes[nodeOf(evs[i].u)].kids[k].trk]
          THEN Bad("eval-flags")

     ELSE JS("", S2, dig, <<"passes">> \o [i \in 1..Len(evs) |-> "evals"] \o [n \in 1..Cardinality(stored) |-> "adopted"])

\* symbolic domain: after an update the new parameter values are the observed ones (so that terms do not
\* grow with the history; each iteration is judged from the parameters observed before it)
RECURSIVE RebindParams(_,_,_)
RebindParams(S2, hs, obs) ==
  IF Exact \/ hs = <<>> THEN S2
  ELSE Strict([S2 EXCEPT !.nodes[S2.hd[Head(hs)].n].t = TIn(Head(obs))], LAMBDA S3 : RebindParams(S3, Tail(hs), Tail(obs)))

JudgeUpdate(e) ==
  IF e.panic THEN Bad("unexpected-panic") ELSE
  LET S2 == Update(S, e.args, SIn(e.lr), e.i)
      wrong == \E i \in 1..Len(e.args) : ~TMatch(e.newp[i], HandleT(S2, e.args[i]))
      dims == \E i \in 1..Len(e.args) : e.newp[i].d # HandleT(S2, e.args[i]).d
      dig2 == [h \in DOMAIN dig |-> IF \E i \in 1..Len(e.args) : e.args[i] = h
                                    THEN e.newp[CHOOSE i \in 1..Len(e.args) : e.args[i] = h].x ELSE dig[h]]
  IN IF \E i \in 1..Len(e.args) : Tainted(HandleT(S2, e.args[i])) THEN LeftExact
     ELSE IF dims THEN Bad("update-dims") ELSE IF wrong THEN Bad("update-values")
     ELSE JS("", RebindParams(S2, e.args, e.newp), dig2, <<"updates">>)

JudgeModel(e) ==
  IF e.op \in {"dense_new", "conv_new"} THEN
     IF e.panic THEN Bad("unexpected-panic") ELSE
     LET ts == [i \in 1..Len(e.params) |-> TIn(e.params[i])]
         rec == IF e.op = "dense_new" THEN [kind |-> "dense", ph |-> e.ph, act |-> e.act, sr |-> 0, sc |-> 0]
                ELSE [kind |-> "conv", ph |-> e.ph, act |-> e.act, sr |-> e.sr, sc |-> e.sc]
         ok == /\ Len(e.params) = 2
               /\ IF e.op = "dense_new" THEN DenseDimsOK(e.in, e.out, ts[1], ts[2]) ELSE ConvDimsOK(e.fd, ts[1], ts[2])
     IN IF ~ok THEN Bad("layer-parameter-dims")
        ELSE J("", NewLayer(S, e.layer, rec, ts, e.i), DigPut(DigPut(dig, e.ph[1], e.params[1].x), e.ph[2], e.params[2].x))
  ELSE IF e.op = "layer_forward" THEN
     LET st == LayerStatus(S, e.layer, e.args[1]) IN
     IF st = "unspec" THEN Unspec
     ELSE IF st = "refuse" THEN (IF e.panic THEN JS("", S, dig, <<"refusals">>) ELSE Bad("expected-refusal"))
     ELSE LET S2 == LayerForward(S, e.layer, e.args[1], e.res, e.i)
          IN NewValue(e, S2, HandleT(S2, e.res), <<"judged">>)
  ELSE IF e.op = "model_new" THEN
     J("", [S EXCEPT !.model = [on |-> TRUE, layers |-> e.layers, lr |-> SIn(e.lr), cost |-> e.cost]], dig)
  ELSE IF e.op = "model_drop" THEN
     J("", [Drop(S, OutH) EXCEPT !.model = [on |-> FALSE]], dig)
  ELSE IF e.op = "m_forward" THEN
     LET r == ModelForward(S, e.args[1], e.res, e.i) IN
     IF r.st = "unspec" THEN Unspec
     ELSE IF r.st = "refuse" THEN (IF e.panic THEN JS("", S, dig, <<"refusals">>) ELSE Bad("expected-refusal"))
     ELSE NewValue(e, r.S, HandleT(r.S, e.res), <<"judged">>)
  ELSE IF e.op = "m_backward" THEN
     LET st == ModelBackwardStatus(S, e.args[1]) IN
     IF st = "unspec" THEN Unspec
     ELSE IF st = "refuse" THEN (IF e.panic THEN JS("", S, dig, <<"refusals">>) ELSE Bad("expected-refusal"))
     ELSE IF e.panic THEN Bad("unexpected-panic")
     ELSE LET r == ModelBackward(S, e.args[1], e.i) IN
          IF GradsTainted(r.S) \/ Tainted(T(<<1>>, <<r.loss>>)) THEN LeftExact
          ELSE IF ~SMatch(e.ret, r.loss) THEN Bad("loss") ELSE JS("", r.S, dig, <<"passes">>)
  ELSE IF e.op = "m_update" THEN
     IF e.panic THEN Bad("unexpected-panic") ELSE
     LET S2 == ModelUpdate(S, e.i)
         ps == AllParams(S, S.model.layers)
         tainted == \E i \in 1..Len(ps) : Tainted(HandleT(S2, ps[i]))
         dig2 == [h \in DOMAIN dig |-> IF \E i \in 1..Len(ps) : ps[i] = h THEN ObsOf(e, h).x ELSE dig[h]]
         obsP == [i \in 1..Len(ps) |-> ObsOf(e, ps[i]).val]
     IN IF tainted THEN LeftExact
        ELSE IF \E i \in 1..Len(ps) : obsP[i].d # HandleT(S2, ps[i]).d THEN Bad("update-dims")
        ELSE IF \E i \in 1..Len(ps) : ~TMatch(obsP[i], HandleT(S2, ps[i])) THEN Bad("update-values")
        ELSE JS("", IF Exact THEN S2 ELSE RebindParams(S2, ps, obsP), dig2, <<"updates">>)
  ELSE Bad("TOOLERR-unknown-op")

Judge(e) ==
  IF Has(e, "invalid") /\ e.invalid THEN Bad("TOOLERR-invalid-program")
  ELSE IF Has(e, "obs_panic") THEN Bad("observation-panic")     \* a public accessor panicked while observing
  ELSE IF Has(e, "when") /\ e.skipped THEN (IF e.when = lastcmp THEN Bad("control-flow") ELSE J("", S, dig))
  ELSE IF Has(e, "when") /\ e.when # lastcmp THEN Bad("control-flow")
  ELSE IF e.op = "leaf" THEN
     LET ctor == Fld(e, "ctor", "dv")
         vals == IF ctor = "zeros" THEN [d |-> e.d, v |-> [k \in 1..Prod(e.d) |-> SZero]]
                 ELSE IF Has(e, "hx") THEN TIn([d |-> IF ctor = "flat" THEN <<Len(e.hx)>> ELSE e.d, hx |-> e.hx])
                 ELSE IF ctor = "flat" THEN TIn([d |-> <<Len(e.m)>>, m |-> e.m, e |-> e.e])
                 ELSE TIn([d |-> e.d, m |-> e.m, e |-> e.e])
         ok == IF ctor = "zeros" THEN ValidDims(e.d) ELSE LeafOK(vals.d, vals.v)
     IN IF ~ok THEN (IF e.panic THEN JS("", S, dig, <<"refusals">>) ELSE Bad("expected-refusal"))
        ELSE NewValue(e, NewLeaf(S, e.res, vals, Fld(e, "trk", FALSE), e.i), vals, <<"judged">>)
  ELSE IF e.op = "nested" THEN
     LET ts == OperandTs(S, e.args)
         same == \A i \in 1..Len(ts) : ts[i].d = ts[1].d
         RECURSIVE Cat(_)
         Cat(i) == IF i > Len(ts) THEN <<>> ELSE ts[i].v \o Cat(i + 1)
         S0 == IF e.mv THEN [S EXCEPT !.hd = [h \in (DOMAIN S.hd) \ { e.args[i] : i \in 1..Len(e.args) } |-> S.hd[h]]] ELSE S
         dig0 == [h \in DOMAIN S0.hd \ Hidden |-> dig[h]]
     IN IF e.args = <<>> THEN Unspec
        ELSE IF ~same THEN (IF e.panic THEN JS("", S0, dig0, <<"refusals">>) ELSE Bad("expected-refusal"))
        ELSE LET t == T(<<Len(ts)>> \o ts[1].d, Cat(1))
                 r == NewValue(e, NewLeaf(S0, e.res, t, FALSE, e.i), t, <<"judged">>)
             IN IF r.why # "" THEN r ELSE [r EXCEPT !.dig = DigPut(dig0, e.res, e.new.x)]
  ELSE IF e.op = "index" THEN
     LET t == HandleT(S, e.args[1])
         k == IF Has(e, "flat") THEN e.flat ELSE Flatten(t.d, e.idx)
         inr == IF Has(e, "flat") THEN e.flat < Len(t.v) ELSE InRange(t.d, e.idx)
     IN IF ~inr THEN Unspec
        ELSE IF e.panic THEN Bad("unexpected-panic")
        ELSE IF ~SMatch(e.ret, t.v[k + 1]) THEN Bad("index-value") ELSE JS("", S, dig, <<"judged">>)
  ELSE IF e.op = "eq" THEN
     IF e.panic THEN Bad("unexpected-panic")
     ELSE IF e.ret # (HandleT(S, e.args[1]) = HandleT(S, e.args[2])) THEN Bad("equality") ELSE JS("", S, dig, <<"judged">>)
  ELSE IF e.op \in {"abs_diff_eq", "relative_eq"} THEN
     LET r == ApproxEq(e.op, HandleT(S, e.args[1]), HandleT(S, e.args[2]), SIn(e.eps), IF Has(e, "rel") THEN SIn(e.rel) ELSE SZero) IN
     IF r = "unspec" THEN Unspec
     ELSE IF e.panic THEN Bad("unexpected-panic")
     ELSE IF e.ret # (r = "T") THEN Bad("approx-equality") ELSE JS("", S, dig, <<"judged">>)
  ELSE IF e.op = "cmp" THEN
     LET v == SGt(HandleT(S, e.args[1]).v[e.k + 1], SIn(e.thr), e.ret) IN
     IF e.ret # v THEN Bad("comparison") ELSE [J("", S, dig) EXCEPT !.cmp = v]
  ELSE IF e.op \in DiffOps THEN JudgeApply(e)
  ELSE IF e.op = "sum_all" THEN
     IF e.panic THEN Bad("unexpected-panic")
     ELSE IF Tainted(T(<<1>>, <<SumAll(HandleT(S, e.args[1]))>>)) THEN LeftExact
     ELSE IF ~SMatch(e.ret, SumAll(HandleT(S, e.args[1]))) THEN Bad("values") ELSE JS("", S, dig, <<"judged">>)
  ELSE IF e.op = "clone" THEN J("", Clone(S, e.args[1], e.res), DigPut(dig, e.res, dig[e.args[1]]))
  ELSE IF e.op = "drop" THEN J("", Drop(S, e.args[1]), DigDel(dig, e.args[1]))
  ELSE IF e.op \in {"start", "stop", "tracked", "untracked", "clear", "setgrad"} /\ IsGradView(e.args[1]) THEN Unspec
  ELSE IF e.op \in {"start", "stop"} THEN
     IF e.ret # S.hd[e.args[1]].trk THEN Bad("previous-flag")
     ELSE J("", SetTrk(S, e.args[1], e.op = "start"), dig)
  ELSE IF e.op \in {"tracked", "untracked"} THEN J("", SetTracked(S, e.args[1], e.op = "tracked"), dig)
  ELSE IF e.op = "backward" THEN JudgeBackward(e)
  ELSE IF e.op = "grad" THEN
     LET n == S.hd[e.args[1]].n IN
     IF e.some # IsSome(S.grad[n]) THEN Bad("grad-presence")
     ELSE IF ~e.some THEN J("", S, dig)
     ELSE NewValue(e, FetchGrad(S, e.args[1], e.res, e.i), S.grad[n].x, <<>>)
  ELSE IF e.op = "clear" THEN
     LET g == S.grad[S.hd[e.args[1]].n] IN
     \* replace_gradient() hands out exactly what the slot held
     IF Has(e, "taken") /\ Has(e.taken, "none") /\ IsSome(g) THEN Bad("replace-gradient-result")
     ELSE IF Has(e, "taken") /\ ~Has(e.taken, "none") /\ (g.none \/ e.taken.d # g.x.d \/ ~TMatch(e.taken, g.x)) THEN Bad("replace-gradient-result")
     ELSE J("", ClearGrad(S, e.args[1]), dig)
  ELSE IF e.op = "setgrad" THEN J("", SetGrad(S, e.args[1], TIn(e.g)), dig)
  ELSE IF e.op = "into_vec" THEN
     IF MustOwn(S, e.args[1]) /\ e.panic THEN Bad("into_vec-should-succeed")
     ELSE JS("", IntoVec(S, e.args[1]), DigDel(dig, e.args[1]), IF MustOwn(S, e.args[1]) THEN <<"owned">> ELSE <<>>)
  ELSE IF e.op = "update" THEN JudgeUpdate(e)
  ELSE JudgeModel(e)

\* symbolic domain: once an event has been judged, stored gradients are carried on as the OBSERVED
\* values (each later pass is judged from what was actually there; terms and adjoint symbols of an
\* earlier pass never leak into a later one)
RebindGrads(S2, e) ==
  IF Exact THEN S2 ELSE
  [S2 EXCEPT !.grad = [n \in 1..Len(S2.grad) |->
      LET hs == { h \in (DOMAIN S2.hd) \ Hidden : S2.hd[h].n = n /\ h \in ObsHandles(e) /\ Has(ObsOf(e, h), "gt") } IN
      IF IsSome(S2.grad[n]) /\ hs # {} THEN Some(TIn(ObsOf(e, CHOOSE h \in hs : TRUE).gt)) ELSE S2.grad[n]]]

\* Implementation-model drift (REPORT ONLY, never a verdict): internals that AutodiffImpl predicts but that no
\* property promises - a consumer counter left non-zero between two API calls (read from the public Debug output
\* when it has such a field), operands still tracked while a user derivative closure runs.  A refactoring that
\* keeps every property may change these, so they only feed the evidence field impl_model_drift.
Drift(e) ==
  \/ \E i \in 1..Len(e.live) : Has(e.live[i], "cc") /\ e.live[i].cc # 0
  \/ Has(e, "evals") /\ \E i \in 1..Len(e.evals) : Has(e.evals[i], "ct") /\ \E k \in 1..Len(e.evals[i].ct) : e.evals[i].ct[k]

RECURSIVE Bump(_,_)
Bump(st, ks) == IF ks = <<>> THEN st ELSE Bump([st EXCEPT ![Head(ks)] = @ + 1], Tail(ks))

\* (the heavy evaluation comes before any primed variable is assigned: TLC caches LET values only
\*  while the successor state is still empty)
Step ==
  /\ l <= Len(Rec)
  /\ LET e == Rec[l] IN
     IF e.op = "reset" THEN
        /\ S' = EmptyState /\ dig' = <<>> /\ skip' = FALSE /\ lastcmp' = FALSE
        /\ stats' = [stats EXCEPT !.cases = @ + 1]
     ELSE IF skip THEN /\ UNCHANGED <<S, dig, skip, lastcmp>> /\ stats' = [stats EXCEPT !.skipped = @ + 1]
     ELSE \E mark \in {Exact \/ PrintT(<<"EV", e.case, e.i>>)} : \E j \in {Judge(e)} :
          \E why \in {IF j.why # "" \/ j.unspec THEN j.why ELSE CheckLive(e, j.S, j.dig)} :
             IF j.unspec THEN
                /\ PrintT(<<IF j.left THEN "LEFTEXACT" ELSE "UNSPEC", e.case, e.i, e.op>>)
                /\ skip' = TRUE /\ UNCHANGED <<S, dig, lastcmp>>
                /\ stats' = IF j.left THEN [stats EXCEPT !.left = @ + 1] ELSE [stats EXCEPT !.unspec = @ + 1]
             ELSE IF why # "" THEN
                /\ Report(e, why)
                /\ skip' = TRUE /\ stats' = [stats EXCEPT !.bad = @ + 1] /\ UNCHANGED <<S, dig, lastcmp>>
             ELSE /\ S' = RebindGrads(j.S, e) /\ dig' = j.dig /\ lastcmp' = j.cmp /\ skip' = FALSE
                  /\ stats' = Bump(stats, IF Drift(e) THEN j.st \o <<"drift">> ELSE j.st)
  /\ l' = l + 1

Spec == Init /\ [][Step]_vars

Done == (l = Len(Rec) + 1) => PrintT(<<"SUMMARY", ToJson(stats), "events", Len(Rec)>>)
Accepted == TLCGet("stats").diameter = Len(Rec) + 1
=============================================================================
