SPECIFICATION MCSpec
CONSTANTS
  MaxOps = 2
  MaxPasses = 2
  Ops = {"add", "mul"}
  Guard = TRUE
  LeafKind = "scalar"
  Variants = {1, 2}
INVARIANTS NoResidue CntNonNeg EvalOnce EvalComplete EvalAll PassRefinesAbs GradShape
PROPERTY Immutable
CHECK_DEADLOCK FALSE
