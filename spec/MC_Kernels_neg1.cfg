SPECIFICATION Spec
CONSTANTS
  MaxRank = 3
  MaxSize = 2
  MatSizes = {1, 2}
  Variant = "operand-offset-modulo"
INVARIANT KernelRefines
CHECK_DEADLOCK FALSE
