------------------------------ MODULE MC_Model ------------------------------
(***************************************************************************)
(* C14 at the level of the specification: in any run of the forward /      *)
(* backward / update loop (ModelAbs), each iteration steps every parameter *)
(* by exactly what ONE iteration on a FRESH state with the same parameter  *)
(* values would give, whatever happened before (StepExact); after an       *)
(* update no parameter holds a gradient (NoStaleGradient); once the model  *)
(* has moved on to the next forward, nothing of the previous iteration is  *)
(* alive (PreviousReleased, C18).  TLC explores every sequence of batches  *)
(* from Batches over Iters iterations for every layer stack in Stacks.     *)
(***************************************************************************)
EXTENDS Dyadic, Sequences, FiniteSets, TLC

CONSTANTS Iters

IdAdj(n, t) == t
INSTANCE ModelAbs WITH SAdd <- DAdd, SMul <- DMul, SNeg <- DNeg, SDiv <- DDiv, SFn <- DFn,
                       SPow <- DPow, SDPow <- DDPow, SZero <- DZero, SOne <- DOne, AdjCanon <- IdAdj

Tn(d, ints, e) == T(d, [k \in 1..Len(ints) |-> Dy(ints[k], e)])
\* stacks: sequence of [in, out, act]; parameters by position
Stacks == { << [in |-> 1, out |-> 1, act |-> "none"] >>,
            << [in |-> 2, out |-> 1, act |-> "relu"] >>,
            << [in |-> 1, out |-> 2, act |-> "relu"], [in |-> 2, out |-> 1, act |-> "none"] >> }
\* batches: [x, y] with dims for an input size 1 or 2 and output size 1
BatchesFor(nin) == IF nin = 1
  THEN { [x |-> Tn(<<1>>, <<2>>, 0), y |-> Tn(<<1>>, <<1>>, 0)],
         [x |-> Tn(<<2, 1>>, <<-1, 3>>, 0), y |-> Tn(<<2, 1>>, <<1, -1>>, 1)] }
  ELSE { [x |-> Tn(<<2>>, <<1, -2>>, 0), y |-> Tn(<<1>>, <<3>>, 1)],
         [x |-> Tn(<<2, 2>>, <<1, 2, -1, 1>>, 0), y |-> Tn(<<2, 1>>, <<1, 0>>, 0)] }

W0(l) == Tn(<<l.out, l.in>>, [k \in 1..(l.out * l.in) |-> (IF k % 2 = 1 THEN 1 ELSE -1) * k], 1)
B0(l) == Tn(<<l.out>>, [k \in 1..l.out |-> k], 2)

RECURSIVE Build(_,_,_,_)
Build(S0, stack, k, ws) ==          \* ws: sequence of <<W, b>> tensors per layer
  IF k > Len(stack) THEN S0
  ELSE Build(NewLayer(S0, k, [kind |-> "dense", ph |-> <<100 + 2*k, 101 + 2*k>>, act |-> stack[k].act, sr |-> 0, sc |-> 0],
                      ws[k], k), stack, k + 1, ws)
Fresh(stack, ws) ==
  [Build(EmptyState, stack, 1, ws) EXCEPT
     !.model = [on |-> TRUE, layers |-> [k \in 1..Len(stack) |-> k], lr |-> Dy(1, 1), cost |-> "mse"]]
ParamsOf(S0, stack) == [k \in 1..Len(stack) |-> <<HandleT(S0, 100 + 2*k), HandleT(S0, 101 + 2*k)>>]

\* one iteration on state S0 with handles x = 1, y = 2, out = 3 (dropped afterwards, like a training loop)
Iterate(S0, b, uid) ==
  LET S1 == NewLeaf(NewLeaf(S0, 1, b.x, FALSE, uid), 2, b.y, FALSE, uid)
      f == ModelForward(S1, 1, 3, uid)
      r == ModelBackward(f.S, 2, uid)
      S2 == ModelUpdate(r.S, uid)
  IN [S |-> Drop(Drop(Drop(S2, 3), 2), 1), loss |-> r.loss, afterForward |-> f.S]

VARIABLES S, stack, it, lastOK, relOK
vars == <<S, stack, it, lastOK, relOK>>

Init == /\ stack \in Stacks
        /\ S = Fresh(stack, [k \in 1..Len(stack) |-> <<W0(stack[k]), B0(stack[k])>>])
        /\ it = 0 /\ lastOK = TRUE /\ relOK = TRUE

Huge2(t) == \E k \in 1..Len(t.v) : IsHuge(t.v[k])
Step ==
  /\ it < Iters
  /\ \E b \in BatchesFor(stack[1].in) :
       LET before == ParamsOf(S, stack)
           r == Iterate(S, b, it + 1)
           fresh == Iterate(Fresh(stack, before), b, 1)
           nodesBefore == Len(S.nodes)
       IN /\ S' = r.S
          \* StepExact: same parameters and same loss as one iteration from a fresh state
          /\ lastOK' = (ParamsOf(r.S, stack) = ParamsOf(fresh.S, stack) /\ r.loss = fresh.loss)
          \* PreviousReleased: after the forward of this iteration nothing created before it is alive,
          \* except the current parameter nodes
          /\ relOK' = (Alive(r.afterForward, Live(r.afterForward)) \cap (1..nodesBefore)
                         \subseteq { S.hd[h].n : h \in DOMAIN S.hd \ {OutH} })
  /\ it' = it + 1 /\ UNCHANGED stack
Spec == Init /\ [][Step]_vars

StepExact == lastOK
PreviousReleased == relOK
NoStaleGradient == \A n \in 1..Len(S.grad) : S.grad[n] = None \/ S.nodes[n].kids # <<>> \/ S.nodes[n].kind # "leaf"
                     \/ ~\E h \in DOMAIN S.hd : S.hd[h].n = n
ParamsTracked == \A k \in 1..Len(stack) : S.hd[100 + 2*k].trk /\ S.hd[101 + 2*k].trk
=============================================================================
