----------------------------- MODULE TraceReal -----------------------------
(***************************************************************************)
(* The trace validator over symbolic terms (real domain).  Structure       *)
(* (dims, flags, gradient presence, refusals, ownership) is decided here   *)
(* exactly as in TraceExact; for VALUES it prints                          *)
(*   <<"EV", case, i>>              the event now being judged             *)
(*   <<"CHK", json>>                observed bit patterns + defining terms *)
(*   <<"BIND", json>>               symbols y[n] := the value observed for *)
(*                                  the handle created by this event       *)
(*   <<"DEF", json>>                adjoint symbols a[n] := terms          *)
(* and the term interpreter (lib/realdom.py) evaluates them.               *)
(***************************************************************************)
EXTENDS ScalarTerm, Sequences, Json, IOUtils, TLC

RTIn(j) == [d |-> j.d, v |-> [k \in 1..Len(j.hx) |-> [t |-> "hx", h |-> j.hx[k]]]]
RTMatch(obs, t) == PrintT(<<"CHK", ToJson([hx |-> obs.hx, v |-> t.v])>>)
RSIn(j) == IF "hx" \in DOMAIN j THEN [t |-> "hx", h |-> j.hx] ELSE KC(j.m, j.e)
RSMatch(obs, x) == PrintT(<<"CHK", ToJson([hx |-> <<obs.hx>>, v |-> <<x>>])>>)
RSGt(x, thr, observed) == observed
RPIn(j) == IF "n" \in DOMAIN j THEN [n |-> j.n] ELSE [hx |-> j.hx]
RCanon(n, t) == IF PrintT(<<"BIND", ToJson([n |-> n, len |-> Len(t.v)])>>)
                THEN [d |-> t.d, v |-> [k \in 1..Len(t.v) |-> [t |-> "y", n |-> n, i |-> k]] \o <<>>]
                ELSE t
RAdjCanon(n, t) == IF PrintT(<<"DEF", ToJson([n |-> n, v |-> t.v])>>)
                   THEN [d |-> t.d, v |-> [k \in 1..Len(t.v) |-> [t |-> "a", n |-> n, i |-> k]] \o <<>>]
                   ELSE t
RTainted(t) == FALSE
RApproxEq(kind, a, b, eps, rel) == "unspec"
XRec == ndJsonDeserialize(IOEnv.TRACE)

VARIABLES l, S, dig, skip, lastcmp, stats

INSTANCE TraceSpec WITH SAdd <- KAdd, SMul <- KMul, SNeg <- KNeg, SDiv <- KDiv, SFn <- KFn,
                        SPow <- KPow, SDPow <- KDPow, SZero <- KZero, SOne <- KOne, AdjCanon <- RAdjCanon,
                        TIn <- RTIn, TMatch <- RTMatch, SIn <- RSIn, SMatch <- RSMatch, SGt <- RSGt,
                        PIn <- RPIn, Canon <- RCanon, ApproxEq <- RApproxEq, Tainted <- RTainted, Exact <- FALSE, Rec <- XRec
=============================================================================
