SPECIFICATION Spec
CONSTANTS
  MaxLen = 4
  MaxOps = 2
  MaxPasses = 2
  Ops = {"add", "mul"}
  Acts = {"op", "backward", "flag", "own", "drop"}
  LeafDims <- LD_scalar
INVARIANT Emit
CHECK_DEADLOCK FALSE
