---------------------------- MODULE TensorCore ----------------------------
(***************************************************************************)
(* Mathematical definition of corgi's tensor operations, generic in the    *)
(* scalar domain.  A tensor is [d |-> dims, v |-> row-major scalars].      *)
(*                                                                         *)
(* Everything here is written from the documented meaning of the           *)
(* operations (properties C02-C07, C16), never from the implementation:    *)
(*  - forward definitions by index formulas;                               *)
(*  - vector-Jacobian products (VJPs) of every operation that is linear in *)
(*    the differentiated operand are DERIVED from the forward definition   *)
(*    on basis vectors (LinVjp), so broadcasting, overlapping convolution  *)
(*    windows, transposition flags and additive terms need no rule of      *)
(*    their own;                                                           *)
(*  - the remaining point-wise cases use a table of scalar partials.       *)
(*                                                                         *)
(* Scalar domains that instantiate this module: ScalarInt (TLC integers),  *)
(* Dyadic (exact dyadic rationals m*2^-e), ScalarTerm (symbolic terms).    *)
(***************************************************************************)
EXTENDS Naturals, Integers, Sequences, FiniteSets
LOCAL INSTANCE SequencesExt      \* FoldLeft (evaluated natively by TLC)

CONSTANTS SAdd(_,_), SMul(_,_), SNeg(_), SDiv(_,_),
          SFn(_,_),      \* SFn(name, x): "exp" "ln" "sigmoid" "relu" "step"
          SPow(_,_),     \* SPow(x, p): x^p, p an exponent descriptor of the domain
          SDPow(_,_),    \* SDPow(x, p): p * x^(p-1)
          SZero, SOne

Mx(a, b) == IF a >= b THEN a ELSE b
Mn(a, b) == IF a <= b THEN a ELSE b

RECURSIVE Prod(_)
Prod(d) == IF d = <<>> THEN 1 ELSE Head(d) * Prod(Tail(d))

\* left-to-right sum of a sequence of scalars.  (Not a RECURSIVE operator: TLC re-evaluates the
\* arguments of recursive operators at every reference, which is quadratic here.)
SumV(s) == IF Len(s) = 0 THEN SZero ELSE FoldLeft(SAdd, s[1], SubSeq(s, 2, Len(s)))

\* strict binding: F applied to the VALUE of x (TLC evaluates set elements eagerly, so x is computed
\* exactly once; used where an argument of a recursive operator would otherwise be re-evaluated)
Strict(x, F(_)) == CHOOSE r \in { F(y) : y \in {x} } : TRUE

\* a tensor; its values are materialised into a tuple here (a TLC function constructor is lazy and
\* would re-evaluate an element's defining expression at every access)
T(d, v) == [d |-> d, v |-> v \o <<>>]
Size(t) == Len(t.v)
Fill(d, x) == T(d, [k \in 1..Prod(d) |-> x])
Zeros(d) == Fill(d, SZero)
Ones(d) == Fill(d, SOne)
Basis(d, j) == T(d, [k \in 1..Prod(d) |-> IF k = j THEN SOne ELSE SZero])
Dot(a, b) == SumV([k \in 1..Len(a.v) |-> SMul(a.v[k], b.v[k])])

LastN(s, n) == SubSeq(s, Len(s) - n + 1, Len(s))
FirstN(s, n) == SubSeq(s, 1, n)

(***************************************************************************)
(* Shapes: row-major layout, right-aligned broadcasting.                   *)
(***************************************************************************)
ValidDims(d) == Len(d) >= 1 /\ \A i \in 1..Len(d) : d[i] >= 1

Pad(d, r) == [i \in 1..r |-> IF i <= r - Len(d) THEN 1 ELSE d[i - (r - Len(d))]]

BOK(a, b) == LET r == Mx(Len(a), Len(b)) pa == Pad(a, r) pb == Pad(b, r)
             IN \A i \in 1..r : pa[i] = pb[i] \/ pa[i] = 1 \/ pb[i] = 1
BDims(a, b) == LET r == Mx(Len(a), Len(b)) pa == Pad(a, r) pb == Pad(b, r)
               IN [i \in 1..r |-> Mx(pa[i], pb[i])]
\* d can be broadcast to exactly `to`
BroadcastsTo(d, to) == Len(d) <= Len(to) /\ BOK(d, to) /\ BDims(d, to) = to

\* 0-based multi-index of 0-based flat index k under dims d
RECURSIVE Unflat(_,_)
Unflat(d, k) == IF Len(d) = 0 THEN <<>>
                ELSE LET rest == Prod(Tail(d)) IN <<k \div rest>> \o Unflat(Tail(d), k % rest)
\* 0-based flat index of 0-based multi-index idx under dims d (Horner)
RECURSIVE FlatOf(_,_,_)
FlatOf(d, idx, acc) == IF Len(d) = 0 THEN acc
                       ELSE FlatOf(Tail(d), Tail(idx), acc * Head(d) + Head(idx))
Flatten(d, idx) == FlatOf(d, idx, 0)
InRange(d, idx) == Len(idx) = Len(d) /\ \A i \in 1..Len(d) : idx[i] >= 0 /\ idx[i] < d[i]

\* 1-based position in an operand of dims d of the element that is broadcast to
\* the 0-based output multi-index idx (index 0 along broadcast dimensions)
OpIndex(d, idx) == LET r == Len(idx) pd == Pad(d, r)
                       j == [i \in 1..r |-> IF pd[i] = 1 THEN 0 ELSE idx[i]]
                   IN FlatOf(pd, j, 0) + 1

(***************************************************************************)
(* Forward definitions                                                     *)
(***************************************************************************)
Map(f(_), a) == T(a.d, [k \in 1..Len(a.v) |-> f(a.v[k])])

\* element-wise binary operation with right-aligned broadcasting (C04)
EW(f(_,_), a, b) ==
  LET od == BDims(a.d, b.d) IN
  T(od, [k \in 1..Prod(od) |-> LET idx == Unflat(od, k-1)
                               IN f(a.v[OpIndex(a.d, idx)], b.v[OpIndex(b.d, idx)])])

Neg(a) == Map(SNeg, a)
Scale(a, c) == Map(LAMBDA x : SMul(x, c), a)
Add(a, b) == EW(SAdd, a, b)
Sub(a, b) == EW(LAMBDA x, y : SAdd(x, SNeg(y)), a, b)
Mul(a, b) == EW(SMul, a, b)
Div(a, b) == EW(SDiv, a, b)
Axpy(alpha, x, y) == EW(LAMBDA p, q : SAdd(SMul(alpha, p), q), x, y)

\* same-shape add used to accumulate adjoints
TAdd(a, b) == T(a.d, [k \in 1..Len(a.v) |-> SAdd(a.v[k], b.v[k])])

\* sum of t over the positions that dims d was broadcast from (C03):
\* element j of the result collects every element of t whose index agrees with j on the
\* dimensions d really has and is arbitrary on the dimensions d was stretched over
ReduceTo(t, d) ==
  IF t.d = d THEN t ELSE
  LET r == Len(t.d)
      pd == Pad(d, r)
      free == [i \in 1..r |-> IF pd[i] = 1 THEN t.d[i] ELSE 1]
      mult == Prod(free)
  IN T(d, [j \in 1..Prod(d) |->
            LET tidx == Unflat(pd, j-1) IN
            SumV([c \in 1..mult |->
                    LET fidx == Unflat(free, c-1)
                        src == [i \in 1..r |-> IF pd[i] = 1 THEN fidx[i] ELSE tidx[i]]
                    IN t.v[Flatten(t.d, src) + 1]])])

\* sum(k): the last k dimensions collapsed into one unit dimension (C07); k in 1..rank
SumKDims(d, k) == FirstN(d, Len(d) - k) \o <<1>>
SumK(a, k) ==
  IF k = 0 THEN a ELSE
  LET g == Prod(LastN(a.d, k))  od == SumKDims(a.d, k) IN
  T(od, [j \in 1..Prod(od) |-> SumV([i \in 1..g |-> a.v[(j-1)*g + i]])])
SumAll(a) == SumV(a.v)

ReshapeOK(a, d) == ValidDims(d) /\ Prod(d) = Len(a.v)
Reshape(a, d) == T(d, a.v)

\* softmax over the last dimension (C07)
Softmax(a) ==
  LET n == a.d[Len(a.d)] IN
  T(a.d, [k \in 1..Len(a.v) |->
            LET row == (k-1) \div n IN
            SDiv(SFn("exp", a.v[k]), SumV([j \in 1..n |-> SFn("exp", a.v[row*n + j])]))])

(***************************************************************************)
(* Matrix multiplication (C05).                                            *)
(* A rank-1 operand next to a rank>=2 operand is the one-row matrix [1,k]  *)
(* (before its transposition flag); two untransposed rank-1 operands of    *)
(* equal length give their dot product (dims [1]).  c is the additive      *)
(* term: NoTerm, or dims [cols], [rows,cols], [1,cols], or one element.    *)
(* Status "unspec" = a form the property does not define.                  *)
(***************************************************************************)
NoTerm == [none |-> TRUE]
IsTerm(c) == "d" \in DOMAIN c

Mat2(d) == IF Len(d) = 1 THEN <<1, d[1]>> ELSE d      \* promoted dims
MRows(d, t) == IF t THEN d[Len(d)] ELSE d[Len(d)-1]
MCols(d, t) == IF t THEN d[Len(d)-1] ELSE d[Len(d)]

MatmulShape(da, ta, db, tb, c) ==
  IF Len(da) = 1 /\ Len(db) = 1 THEN
     IF ta \/ tb \/ da # db THEN [st |-> "unspec"]
     ELSE IF IsTerm(c) /\ Prod(c.d) # 1 /\ c.d # <<1>> THEN [st |-> "unspec"]
     ELSE [st |-> "dot", lead |-> <<>>, rows |-> 1, inner |-> da[1], cols |-> 1, od |-> <<1>>]
  ELSE
  LET pa == Mat2(da) pb == Mat2(db)
      la == FirstN(pa, Len(pa)-2) lb == FirstN(pb, Len(pb)-2)
      rows == MRows(pa, ta) inner == MCols(pa, ta)
      innerb == MRows(pb, tb) cols == MCols(pb, tb)
  IN IF inner # innerb THEN [st |-> "refuse"]
     ELSE IF ~BOK(la, lb) THEN [st |-> "refuse"]
     ELSE IF IsTerm(c) /\ Len(c.d) > 2 THEN [st |-> "unspec"]
     ELSE IF IsTerm(c) /\ Prod(c.d) # 1 /\
             ~(c.d[Len(c.d)] = cols /\ (Len(c.d) = 1 \/ c.d[1] = 1 \/ c.d[1] = rows))
          THEN [st |-> "refuse"]
     ELSE [st |-> "ok", lead |-> BDims(la, lb), rows |-> rows, inner |-> inner, cols |-> cols,
           od |-> BDims(la, lb) \o <<rows, cols>>]

\* element (r, j) (1-based) of op(X) for the matrix of leading index li (0-based flat) of X
MatAt(x, pd, t, li, r, j) ==
  LET nr == pd[Len(pd)-1] nc == pd[Len(pd)]
      base == li * nr * nc
  IN IF t THEN x.v[base + (j-1)*nc + r] ELSE x.v[base + (r-1)*nc + j]

TermAt(c, r, j, cols) ==
  IF ~IsTerm(c) THEN SZero
  ELSE IF Len(c.v) = 1 THEN c.v[1]
  ELSE IF Len(c.d) = 1 \/ c.d[1] = 1 THEN c.v[j]
  ELSE c.v[(r-1)*cols + j]

Matmul(a, ta, b, tb, c) ==
  LET sh == MatmulShape(a.d, ta, b.d, tb, c) IN
  IF sh.st = "dot" THEN
     T(<<1>>, <<SAdd(TermAt(c, 1, 1, 1), Dot(a, b))>>)
  ELSE
  LET pa == Mat2(a.d) pb == Mat2(b.d)
      la == FirstN(pa, Len(pa)-2) lb == FirstN(pb, Len(pb)-2)
      lead == sh.lead  rows == sh.rows  cols == sh.cols  inner == sh.inner
      nl == Prod(lead)
  IN T(sh.od, [p \in 1..(nl*rows*cols) |->
         LET l == (p-1) \div (rows*cols)
             r == (((p-1) % (rows*cols)) \div cols) + 1
             j == ((p-1) % cols) + 1
             lidx == Unflat(lead, l)
             lia == IF la = <<>> THEN 0 ELSE OpIndex(la, lidx) - 1
             lib == IF lb = <<>> THEN 0 ELSE OpIndex(lb, lidx) - 1
         IN SAdd(TermAt(c, r, j, cols),
                 SumV([k \in 1..inner |-> SMul(MatAt(a, pa, ta, lia, r, k), MatAt(b, pb, tb, lib, k, j))]))])

(***************************************************************************)
(* Convolution (C06): the direct sliding-window sum.  image dims           *)
(* [batch..., depth, rows, cols], filters [count, depth, fr, fc].          *)
(***************************************************************************)
ConvShape(di, df, sr, sc) ==
  IF Len(di) < 3 \/ Len(df) # 4 \/ sr < 1 \/ sc < 1 THEN [st |-> "unspec"]
  ELSE LET n == Len(di) dp == di[n-2] ir == di[n-1] ic == di[n] IN
       IF df[3] > ir \/ df[4] > ic THEN [st |-> "unspec"]
       ELSE IF df[2] # dp THEN [st |-> "refuse"]
       ELSE [st |-> "ok", batch |-> FirstN(di, n-3), dp |-> dp, ir |-> ir, ic |-> ic,
             cnt |-> df[1], fr |-> df[3], fc |-> df[4],
             orr |-> ((ir - df[3]) \div sr) + 1, occ |-> ((ic - df[4]) \div sc) + 1,
             od |-> FirstN(di, n-3) \o <<df[1], ((ir - df[3]) \div sr) + 1, ((ic - df[4]) \div sc) + 1>>]

Conv(img, flt, sr, sc) ==
  LET sh == ConvShape(img.d, flt.d, sr, sc)
      dp == sh.dp ir == sh.ir ic == sh.ic cnt == sh.cnt fr == sh.fr fc == sh.fc
      orr == sh.orr occ == sh.occ
      per == cnt*orr*occ           \* outputs per image
      isz == dp*ir*ic              \* elements per image
  IN T(sh.od, [p \in 1..(Prod(sh.batch)*per) |->
        LET bi == (p-1) \div per
            q0 == (p-1) % per
            f == q0 \div (orr*occ)  y == (q0 % (orr*occ)) \div occ  x == q0 % occ
        IN SumV([q \in 1..(dp*fr*fc) |->
              LET k == (q-1) \div (fr*fc)  m == ((q-1) % (fr*fc)) \div fc  n == (q-1) % fc
              IN SMul(img.v[bi*isz + (k*ir + (y*sr+m))*ic + (x*sc+n) + 1],
                      flt.v[((f*dp + k)*fr + m)*fc + n + 1])])])

(***************************************************************************)
(* Cost functions (C15), operands (output, target):                        *)
(*   mse  = (target - output)^2 / element count of the output              *)
(*   xent = -target * ln(output) / leading dimension of the output         *)
(***************************************************************************)
SNat(k) == SumV([i \in 1..k |-> SOne])
Mse(o, t) == Scale(Map(LAMBDA x : SMul(x, x), Sub(t, o)), SDiv(SOne, SNat(Prod(o.d))))
Xent(o, t) == Scale(Mul(Neg(t), Map(LAMBDA x : SFn("ln", x), o)), SDiv(SOne, SNat(o.d[1])))

(***************************************************************************)
(* Operations as data: Forward(op, par, ts), Status(op, par, ts)           *)
(* par is a record; its fields depend on op.                               *)
(*   scale: c (scalar)   axpy: alpha (scalar)   powf: p   sum: k           *)
(*   reshape: d   matmul: ta, tb (term = third operand)   conv: sr, sc     *)
(* custom (user) operations supplied by the harness through Array::op:     *)
(*   cadd, cmul (same dims), csq, cfma (a*b+c, same dims)                  *)
(***************************************************************************)
EWOps == {"add", "sub", "mul", "div", "axpy", "mse", "xent"}
UnaryOps == {"neg", "scale", "powf", "recip", "ln", "exp", "relu", "sigmoid", "softmax",
             "sum", "reshape", "csq"}
SameDimOps == {"cadd", "cmul", "cfma"}

Arity(op) == IF op \in EWOps \cup {"cadd", "cmul", "conv"} THEN 2
             ELSE IF op = "cfma" THEN 3
             ELSE IF op = "matmul" THEN 0   \* 2 or 3
             ELSE 1

Status(op, par, ts) ==
  IF op \in EWOps THEN (IF BOK(ts[1].d, ts[2].d) THEN "ok" ELSE "refuse")
  ELSE IF op \in SameDimOps THEN
       (IF \A i \in 1..Len(ts) : ts[i].d = ts[1].d THEN "ok" ELSE "unspec")
  ELSE IF op = "sum" THEN (IF par.k <= Len(ts[1].d) THEN "ok" ELSE "unspec")
  ELSE IF op = "reshape" THEN
       (IF ~ValidDims(par.d) THEN (IF par.d = <<>> THEN "unspec" ELSE "refuse")
        ELSE IF Prod(par.d) = Len(ts[1].v) THEN "ok" ELSE "refuse")
  ELSE IF op = "matmul" THEN
       LET st == MatmulShape(ts[1].d, par.ta, ts[2].d, par.tb,
                             IF Len(ts) = 3 THEN ts[3] ELSE NoTerm).st
       IN IF st = "dot" THEN "ok" ELSE st
  ELSE IF op = "conv" THEN ConvShape(ts[1].d, ts[2].d, par.sr, par.sc).st
  ELSE "ok"

Forward(op, par, ts) ==
  CASE op = "add" -> Add(ts[1], ts[2])
    [] op = "sub" -> Sub(ts[1], ts[2])
    [] op = "mul" -> Mul(ts[1], ts[2])
    [] op = "div" -> Div(ts[1], ts[2])
    [] op = "axpy" -> Axpy(par.alpha, ts[1], ts[2])
    [] op = "neg" -> Neg(ts[1])
    [] op = "scale" -> Scale(ts[1], par.c)
    [] op = "powf" -> Map(LAMBDA x : SPow(x, par.p), ts[1])
    [] op = "recip" -> Map(LAMBDA x : SDiv(SOne, x), ts[1])
    [] op = "ln" -> Map(LAMBDA x : SFn("ln", x), ts[1])
    [] op = "exp" -> Map(LAMBDA x : SFn("exp", x), ts[1])
    [] op = "relu" -> Map(LAMBDA x : SFn("relu", x), ts[1])
    [] op = "sigmoid" -> Map(LAMBDA x : SFn("sigmoid", x), ts[1])
    [] op = "softmax" -> Softmax(ts[1])
    [] op = "sum" -> SumK(ts[1], par.k)
    [] op = "reshape" -> Reshape(ts[1], par.d)
    [] op = "matmul" -> Matmul(ts[1], par.ta, ts[2], par.tb, IF Len(ts) = 3 THEN ts[3] ELSE NoTerm)
    [] op = "conv" -> Conv(ts[1], ts[2], par.sr, par.sc)
    [] op = "cadd" -> TAdd(ts[1], ts[2])
    [] op = "cmul" -> Mul(ts[1], ts[2])
    [] op = "csq" -> Mul(ts[1], ts[1])
    [] op = "cfma" -> TAdd(Mul(ts[1], ts[2]), ts[3])
    [] op = "mse" -> Mse(ts[1], ts[2])
    [] op = "xent" -> Xent(ts[1], ts[2])

(***************************************************************************)
(* Vector-Jacobian products                                                *)
(***************************************************************************)
\* F is linear: (J^T s)[j] = <s, F(e_j)>
LinVjp(F(_), dx, s) == T(dx, [j \in 1..Prod(dx) |-> Dot(s, F(Basis(dx, j)))])

\* point-wise: s[k] * f'(x[k])
PointVjp(D(_), x, s) == T(x.d, [k \in 1..Len(x.v) |-> SMul(s.v[k], D(x.v[k]))])

SoftmaxVjp(a, s) ==     \* row Jacobian diag(p) - p p^T
  LET n == a.d[Len(a.d)] p == Softmax(a) IN
  T(a.d, [k \in 1..Len(a.v) |->
     LET row == (k-1) \div n IN
     SMul(p.v[k], SAdd(s.v[k], SNeg(SumV([j \in 1..n |-> SMul(s.v[row*n + j], p.v[row*n + j])]))))])

\* VJP of operation (op, par) at operands ts with respect to operand i, applied to seed s:
\* THE DEFINITION (derived from the forward definitions)
VjpDef(op, par, ts, i, s) ==
  CASE op = "add" -> IF i = 1 THEN LinVjp(LAMBDA X : Add(X, Zeros(ts[2].d)), ts[1].d, s)
                              ELSE LinVjp(LAMBDA X : Add(Zeros(ts[1].d), X), ts[2].d, s)
    [] op = "sub" -> IF i = 1 THEN LinVjp(LAMBDA X : Sub(X, Zeros(ts[2].d)), ts[1].d, s)
                              ELSE LinVjp(LAMBDA X : Sub(Zeros(ts[1].d), X), ts[2].d, s)
    [] op = "mul" -> IF i = 1 THEN LinVjp(LAMBDA X : Mul(X, ts[2]), ts[1].d, s)
                              ELSE LinVjp(LAMBDA X : Mul(ts[1], X), ts[2].d, s)
    [] op = "div" -> IF i = 1 THEN LinVjp(LAMBDA X : Div(X, ts[2]), ts[1].d, s)
                     ELSE \* d(a/b)/db = -a/b^2, summed over broadcast positions
                          ReduceTo(Mul(s, Neg(Div(ts[1], Mul(ts[2], ts[2])))), ts[2].d)
    [] op = "axpy" -> IF i = 1 THEN LinVjp(LAMBDA X : Axpy(par.alpha, X, Zeros(ts[2].d)), ts[1].d, s)
                               ELSE LinVjp(LAMBDA X : Axpy(par.alpha, Zeros(ts[1].d), X), ts[2].d, s)
    [] op = "neg" -> Neg(s)
    [] op = "scale" -> Scale(s, par.c)
    [] op = "powf" -> PointVjp(LAMBDA x : SDPow(x, par.p), ts[1], s)
    [] op = "recip" -> PointVjp(LAMBDA x : SNeg(SDiv(SOne, SMul(x, x))), ts[1], s)
    [] op = "ln" -> PointVjp(LAMBDA x : SDiv(SOne, x), ts[1], s)
    [] op = "exp" -> PointVjp(LAMBDA x : SFn("exp", x), ts[1], s)
    [] op = "relu" -> PointVjp(LAMBDA x : SFn("step", x), ts[1], s)
    [] op = "sigmoid" -> PointVjp(LAMBDA x : SMul(SFn("sigmoid", x), SAdd(SOne, SNeg(SFn("sigmoid", x)))), ts[1], s)
    [] op = "softmax" -> SoftmaxVjp(ts[1], s)
    [] op = "sum" -> LinVjp(LAMBDA X : SumK(X, par.k), ts[1].d, s)
    [] op = "reshape" -> T(ts[1].d, s.v)
    [] op = "matmul" ->
         LET c == IF Len(ts) = 3 THEN ts[3] ELSE NoTerm
             zc == IF Len(ts) = 3 THEN Zeros(ts[3].d) ELSE NoTerm IN
         IF i = 1 THEN LinVjp(LAMBDA X : Matmul(X, par.ta, ts[2], par.tb, zc), ts[1].d, s)
         ELSE IF i = 2 THEN LinVjp(LAMBDA X : Matmul(ts[1], par.ta, X, par.tb, zc), ts[2].d, s)
         ELSE LinVjp(LAMBDA X : Matmul(Zeros(ts[1].d), par.ta, Zeros(ts[2].d), par.tb, X), ts[3].d, s)
    [] op = "conv" -> IF i = 1 THEN LinVjp(LAMBDA X : Conv(X, ts[2], par.sr, par.sc), ts[1].d, s)
                               ELSE LinVjp(LAMBDA X : Conv(ts[1], X, par.sr, par.sc), ts[2].d, s)
    [] op = "cadd" -> s
    [] op = "cmul" -> Mul(s, ts[3 - i])
    [] op = "csq" -> Mul(s, TAdd(ts[1], ts[1]))
    [] op = "cfma" -> IF i = 3 THEN s ELSE Mul(s, ts[3 - i])
    [] op = "mse" ->   \* d/do = -2(t-o)/N, d/dt = +2(t-o)/N, summed over broadcast positions
         LET g == Scale(Mul(s, Sub(ts[2], ts[1])), SDiv(SAdd(SOne, SOne), SNat(Prod(ts[1].d))))
         IN IF i = 1 THEN ReduceTo(Neg(g), ts[1].d) ELSE ReduceTo(g, ts[2].d)
    [] op = "xent" ->  \* d/do = -t/(o B), d/dt = -ln(o)/B
         LET c == SDiv(SOne, SNat(ts[1].d[1])) IN
         IF i = 1 THEN ReduceTo(Scale(Mul(s, Neg(Div(ts[2], ts[1]))), c), ts[1].d)
         ELSE ReduceTo(Scale(Mul(s, Neg(Map(LAMBDA x : SFn("ln", x), ts[1]))), c), ts[2].d)

(***************************************************************************)
(* Closed forms of the same VJPs, linear in the tensor sizes, used where    *)
(* the definition-derived form (size(X) forward evaluations) is too slow    *)
(* for trace validation.  MC_Rules checks Vjp = VjpDef for every operation, *)
(* every operand, all shape combinations within its bounds and prime-valued *)
(* data, so the definition stays the only source of truth.                  *)
(***************************************************************************)
\* adjoint of the matrix product with respect to the left / right factor and the additive term
MatmulVjpA(a, ta, b, tb, s) ==
  LET sh == MatmulShape(a.d, ta, b.d, tb, NoTerm)
      pa == Mat2(a.d) pb == Mat2(b.d)
      la == FirstN(pa, Len(pa)-2) lb == FirstN(pb, Len(pb)-2)
      nr == pa[Len(pa)-1] nc == pa[Len(pa)]
      nl == Prod(sh.lead)
  IN T(a.d, [p \in 1..Len(a.v) |->
        LET lia == (p-1) \div (nr*nc)
            rr == (((p-1) % (nr*nc)) \div nc) + 1
            cc == ((p-1) % nc) + 1
            r == IF ta THEN cc ELSE rr
            k == IF ta THEN rr ELSE cc
        IN SumV([L \in 1..nl |->
              LET lidx == Unflat(sh.lead, L-1)
                  mine == IF la = <<>> THEN 0 ELSE OpIndex(la, lidx) - 1
                  lib == IF lb = <<>> THEN 0 ELSE OpIndex(lb, lidx) - 1
              IN IF mine # lia THEN SZero
                 ELSE SumV([j \in 1..sh.cols |->
                        SMul(s.v[(L-1)*sh.rows*sh.cols + (r-1)*sh.cols + j], MatAt(b, pb, tb, lib, k, j))])])])
MatmulVjpB(a, ta, b, tb, s) ==
  LET sh == MatmulShape(a.d, ta, b.d, tb, NoTerm)
      pa == Mat2(a.d) pb == Mat2(b.d)
      la == FirstN(pa, Len(pa)-2) lb == FirstN(pb, Len(pb)-2)
      nr == pb[Len(pb)-1] nc == pb[Len(pb)]
      nl == Prod(sh.lead)
  IN T(b.d, [p \in 1..Len(b.v) |->
        LET lib == (p-1) \div (nr*nc)
            rr == (((p-1) % (nr*nc)) \div nc) + 1
            cc == ((p-1) % nc) + 1
            k == IF tb THEN cc ELSE rr
            j == IF tb THEN rr ELSE cc
        IN SumV([L \in 1..nl |->
              LET lidx == Unflat(sh.lead, L-1)
                  mine == IF lb = <<>> THEN 0 ELSE OpIndex(lb, lidx) - 1
                  lia == IF la = <<>> THEN 0 ELSE OpIndex(la, lidx) - 1
              IN IF mine # lib THEN SZero
                 ELSE SumV([r \in 1..sh.rows |->
                        SMul(s.v[(L-1)*sh.rows*sh.cols + (r-1)*sh.cols + j], MatAt(a, pa, ta, lia, r, k))])])])
TermPos(c, r, j, cols) == IF Len(c.v) = 1 THEN 1
                          ELSE IF Len(c.d) = 1 \/ c.d[1] = 1 THEN j ELSE (r-1)*cols + j
MatmulVjpC(a, ta, b, tb, c, s) ==
  LET sh == MatmulShape(a.d, ta, b.d, tb, c)
      rows == sh.rows cols == sh.cols
  IN T(c.d, [q \in 1..Len(c.v) |->
        SumV([p \in 1..Len(s.v) |->
                IF TermPos(c, (((p-1) % (rows*cols)) \div cols) + 1, ((p-1) % cols) + 1, cols) = q
                THEN s.v[p] ELSE SZero])])
DotVjp(other, s) == T(other.d, [k \in 1..Len(other.v) |-> SMul(s.v[1], other.v[k])])

\* adjoint of the convolution with respect to the image / the filters
ConvVjpImg(img, flt, sr, sc, s) ==
  LET sh == ConvShape(img.d, flt.d, sr, sc)
      dp == sh.dp ir == sh.ir ic == sh.ic cnt == sh.cnt fr == sh.fr fc == sh.fc
      orr == sh.orr occ == sh.occ  per == cnt*orr*occ  isz == dp*ir*ic
  IN T(img.d, [p \in 1..Len(img.v) |->
        LET bi == (p-1) \div isz
            q0 == (p-1) % isz
            k == q0 \div (ir*ic)  yy == (q0 % (ir*ic)) \div ic  xx == q0 % ic
        IN SumV([w \in 1..(cnt*fr*fc) |->
              LET f == (w-1) \div (fr*fc)  m == ((w-1) % (fr*fc)) \div fc  n == (w-1) % fc
                  ym == yy - m  xn == xx - n
              IN IF ym < 0 \/ xn < 0 \/ ym % sr # 0 \/ xn % sc # 0 \/ ym \div sr >= orr \/ xn \div sc >= occ
                 THEN SZero
                 ELSE SMul(s.v[bi*per + (f*orr + (ym \div sr))*occ + (xn \div sc) + 1],
                           flt.v[((f*dp + k)*fr + m)*fc + n + 1])])])
ConvVjpFlt(img, flt, sr, sc, s) ==
  LET sh == ConvShape(img.d, flt.d, sr, sc)
      dp == sh.dp ir == sh.ir ic == sh.ic cnt == sh.cnt fr == sh.fr fc == sh.fc
      orr == sh.orr occ == sh.occ  per == cnt*orr*occ  isz == dp*ir*ic  nb == Prod(sh.batch)
  IN T(flt.d, [p \in 1..Len(flt.v) |->
        LET f == (p-1) \div (dp*fr*fc)
            q0 == (p-1) % (dp*fr*fc)
            k == q0 \div (fr*fc)  m == (q0 % (fr*fc)) \div fc  n == q0 % fc
        IN SumV([w \in 1..(nb*orr*occ) |->
              LET bi == (w-1) \div (orr*occ)  y == ((w-1) % (orr*occ)) \div occ  x == (w-1) % occ
              IN SMul(s.v[bi*per + (f*orr + y)*occ + x + 1],
                      img.v[bi*isz + (k*ir + (y*sr+m))*ic + (x*sc+n) + 1])])])

Vjp(op, par, ts, i, s) ==
  CASE op = "add" -> ReduceTo(s, ts[i].d)
    [] op = "sub" -> IF i = 1 THEN ReduceTo(s, ts[1].d) ELSE ReduceTo(Neg(s), ts[2].d)
    [] op = "mul" -> ReduceTo(Mul(s, ts[3 - i]), ts[i].d)
    [] op = "div" /\ i = 1 -> ReduceTo(Div(s, ts[2]), ts[1].d)
    [] op = "axpy" -> IF i = 1 THEN ReduceTo(Scale(s, par.alpha), ts[1].d) ELSE ReduceTo(s, ts[2].d)
    [] op = "sum" -> LET g == Prod(LastN(ts[1].d, par.k)) IN
                     T(ts[1].d, [j \in 1..Len(ts[1].v) |-> s.v[((j-1) \div g) + 1]])
    [] op = "matmul" ->
         IF MatmulShape(ts[1].d, par.ta, ts[2].d, par.tb, IF Len(ts) = 3 THEN ts[3] ELSE NoTerm).st = "dot"
         THEN (IF i = 3 THEN T(ts[3].d, <<s.v[1]>>) ELSE DotVjp(ts[3 - i], s))
         ELSE IF i = 1 THEN MatmulVjpA(ts[1], par.ta, ts[2], par.tb, s)
         ELSE IF i = 2 THEN MatmulVjpB(ts[1], par.ta, ts[2], par.tb, s)
         ELSE MatmulVjpC(ts[1], par.ta, ts[2], par.tb, ts[3], s)
    [] op = "conv" -> IF i = 1 THEN ConvVjpImg(ts[1], ts[2], par.sr, par.sc, s)
                               ELSE ConvVjpFlt(ts[1], ts[2], par.sr, par.sc, s)
    [] OTHER -> VjpDef(op, par, ts, i, s)

=============================================================================
