SPECIFICATION MCSpec
CONSTANTS
  MaxOps = 2
  MaxPasses = 1
  Ops = {"add", "mul"}
  Guard = TRUE
  LeafKind = "scalar"
  Variants = {1, 2, 3}
PROPERTY AbsRefined
CHECK_DEADLOCK FALSE
