------------------------------- MODULE Dyadic -------------------------------
(***************************************************************************)
(* Exact scalar domain: dyadic rationals m * 2^(-e) in canonical form      *)
(* (m odd, or m = 0 and e = 0).  Every operation closed over dyadics is    *)
(* exact in IEEE binary floating point as long as mantissas stay below the *)
(* significand width, so implementation results must equal these values    *)
(* bit for bit.  TLC integers are 32-bit: an overflow is a loud TLC error. *)
(***************************************************************************)
EXTENDS Naturals, Integers, Sequences, TLC, IOUtils

Pow2[k \in 0..30] == IF k = 0 THEN 1 ELSE 2 * Pow2[k-1]

RECURSIVE Strip(_,_)
Strip(m, e) == IF m = 0 THEN [m |-> 0, e |-> 0]
               ELSE IF m % 2 = 0 THEN Strip(m \div 2, e - 1)
               ELSE [m |-> m, e |-> e]

Dy(m, e) == Strip(m, e)
DZero == [m |-> 0, e |-> 0]
DOne == [m |-> 1, e |-> 0]
DInt(k) == Strip(k, 0)
Abs(x) == IF x < 0 THEN 0 - x ELSE x

(***************************************************************************)
(* Guard of the exact domain.  The specification checks the magnitudes of  *)
(* ITS OWN operands before every product and aligned sum; a result that    *)
(* would leave the 31-bit mantissa range is the poison value Huge, which   *)
(* propagates.  A case whose specified values contain Huge has "left the   *)
(* exact domain" and is skipped by the validator (never a verdict), and    *)
(* TLC never overflows.  Every intermediate value of the specification is  *)
(* therefore below 2^31, far inside the 53-bit significand of f64.         *)
(***************************************************************************)
\* 2^30 - 1 for the f64 build; the f32 checks (C19) lower it through the environment (2^22 - 1, so that
\* every intermediate of the specification stays far inside the 24-bit significand)
Lim == IF "VERIF_LIM" \in DOMAIN IOEnv THEN atoi(IOEnv.VERIF_LIM) ELSE 1073741823
Huge == [m |-> 0, e |-> 100000]
IsHuge(a) == a.e = 100000

DAdd(a, b) ==
  IF IsHuge(a) \/ IsHuge(b) THEN Huge
  ELSE IF a.m = 0 THEN b ELSE IF b.m = 0 THEN a
  ELSE LET hi == IF a.e >= b.e THEN a ELSE b      \* the finer-grained operand keeps its mantissa
           lo == IF a.e >= b.e THEN b ELSE a
           dl == hi.e - lo.e
       IN IF dl > 29 THEN Huge
          ELSE IF Abs(lo.m) > Lim \div Pow2[dl] \/ Abs(hi.m) > Lim THEN Huge
          ELSE Strip(hi.m + lo.m * Pow2[dl], hi.e)
DMul(a, b) ==
  IF a = DZero \/ b = DZero THEN DZero
  ELSE IF IsHuge(a) \/ IsHuge(b) THEN Huge
  ELSE IF Abs(a.m) > Lim \div Abs(b.m) THEN Huge
  ELSE IF Abs(a.e + b.e) > 900 THEN Huge
  ELSE [m |-> a.m * b.m, e |-> a.e + b.e]
DNeg(a) == IF IsHuge(a) THEN Huge ELSE [m |-> 0 - a.m, e |-> a.e]
\* reciprocal is dyadic only for +-2^k, i.e. canonical mantissa +-1
DInvOK(a) == Abs(a.m) = 1 /\ ~IsHuge(a)
DInv(a) == IF IsHuge(a) THEN Huge
           ELSE IF DInvOK(a) THEN [m |-> a.m, e |-> 0 - a.e]
           ELSE Assert(FALSE, <<"Dyadic: reciprocal of a non power of two", a>>)
DDiv(a, b) == DMul(a, DInv(b))
DSign(a) == IF a.m > 0 THEN 1 ELSE IF a.m < 0 THEN -1 ELSE 0

RECURSIVE DPowN(_,_)
DPowN(a, n) == IF n = 0 THEN DOne ELSE DMul(a, DPowN(a, n - 1))
\* exponent descriptor of the exact domain: [n |-> integer]
DPow(a, p) == IF p.n >= 0 THEN DPowN(a, p.n) ELSE DInv(DPowN(a, 0 - p.n))
DDPow(a, p) == IF p.n = 0 THEN DZero ELSE DMul(DInt(p.n), DPow(a, [n |-> p.n - 1]))

DFn(name, a) ==
  IF IsHuge(a) THEN Huge ELSE
  CASE name = "relu" -> IF a.m > 0 THEN a ELSE DZero
    [] name = "step" -> IF a.m > 0 THEN DOne ELSE DZero
    [] OTHER -> Assert(FALSE, <<"Dyadic: transcendental function in the exact domain", name>>)
=============================================================================
