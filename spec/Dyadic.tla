------------------------------- MODULE Dyadic -------------------------------
(***************************************************************************)
(* Exact scalar domain: dyadic rationals m * 2^(-e) in canonical form      *)
(* (m odd, or m = 0 and e = 0).  Every operation closed over dyadics is    *)
(* exact in IEEE binary floating point as long as mantissas stay below the *)
(* significand width, so implementation results must equal these values    *)
(* bit for bit.  TLC integers are 32-bit: an overflow is a loud TLC error. *)
(***************************************************************************)
EXTENDS Naturals, Integers, Sequences, TLC

Pow2[k \in 0..30] == IF k = 0 THEN 1 ELSE 2 * Pow2[k-1]

RECURSIVE Strip(_,_)
Strip(m, e) == IF m = 0 THEN [m |-> 0, e |-> 0]
               ELSE IF m % 2 = 0 THEN Strip(m \div 2, e - 1)
               ELSE [m |-> m, e |-> e]

Dy(m, e) == Strip(m, e)
DZero == [m |-> 0, e |-> 0]
DOne == [m |-> 1, e |-> 0]
DInt(k) == Strip(k, 0)

DAdd(a, b) == IF a.m = 0 THEN b ELSE IF b.m = 0 THEN a
              ELSE IF a.e >= b.e THEN Strip(a.m + b.m * Pow2[a.e - b.e], a.e)
              ELSE Strip(a.m * Pow2[b.e - a.e] + b.m, b.e)
DMul(a, b) == IF a.m = 0 \/ b.m = 0 THEN DZero ELSE [m |-> a.m * b.m, e |-> a.e + b.e]
DNeg(a) == [m |-> 0 - a.m, e |-> a.e]
Abs(x) == IF x < 0 THEN 0 - x ELSE x
\* reciprocal is dyadic only for +-2^k, i.e. canonical mantissa +-1
DInvOK(a) == Abs(a.m) = 1
DInv(a) == IF DInvOK(a) THEN [m |-> a.m, e |-> 0 - a.e]
           ELSE Assert(FALSE, <<"Dyadic: reciprocal of a non power of two", a>>)
DDiv(a, b) == DMul(a, DInv(b))
DSign(a) == IF a.m > 0 THEN 1 ELSE IF a.m < 0 THEN -1 ELSE 0

RECURSIVE DPowN(_,_)
DPowN(a, n) == IF n = 0 THEN DOne ELSE DMul(a, DPowN(a, n - 1))
\* exponent descriptor of the exact domain: [n |-> integer]
DPow(a, p) == IF p.n >= 0 THEN DPowN(a, p.n) ELSE DInv(DPowN(a, 0 - p.n))
DDPow(a, p) == IF p.n = 0 THEN DZero ELSE DMul(DInt(p.n), DPow(a, [n |-> p.n - 1]))

DFn(name, a) ==
  CASE name = "relu" -> IF a.m > 0 THEN a ELSE DZero
    [] name = "step" -> IF a.m > 0 THEN DOne ELSE DZero
    [] OTHER -> Assert(FALSE, <<"Dyadic: transcendental function in the exact domain", name>>)
=============================================================================
