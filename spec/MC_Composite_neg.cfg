SPECIFICATION Spec
CONSTANTS
  MaxRank = 1
  MaxSize = 1
  ConvMax = 3
INVARIANT NonAccumulatingRollAlsoRight
CHECK_DEADLOCK FALSE
