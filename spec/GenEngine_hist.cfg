SPECIFICATION Spec
CONSTANTS
  MaxLen = 12
  MaxOps = 4
  MaxPasses = 4
  Ops = {"add", "mul", "neg", "cmul", "cfma"}
  Acts = {"op", "backward", "flag", "clear", "clone", "drop", "grad", "own"}
  LeafDims <- LD_bcast
INVARIANT Emit
CHECK_DEADLOCK FALSE
