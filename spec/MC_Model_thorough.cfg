SPECIFICATION Spec
CONSTANTS Iters = 5
INVARIANTS StepExact PreviousReleased NoStaleGradient ParamsTracked
CHECK_DEADLOCK FALSE
