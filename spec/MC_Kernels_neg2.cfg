SPECIFICATION Spec
CONSTANTS
  MaxRank = 3
  MaxSize = 2
  MatSizes = {1, 2}
  Variant = "flatten-leading-only"
INVARIANT KernelRefines
CHECK_DEADLOCK FALSE
