----------------------------- MODULE TraceExact -----------------------------
(* The trace validator over exact dyadic values: implementation results    *)
(* must equal the specification's bit for bit.                             *)
EXTENDS Dyadic, Sequences, Json, IOUtils

XTIn(j) == [d |-> j.d, v |-> [k \in 1..Len(j.m) |-> Strip(j.m[k], j.e[k])]]
XTMatch(obs, t) == /\ obs.ok /\ obs.d = t.d /\ Len(obs.m) = Len(t.v)
                   /\ \A k \in 1..Len(t.v) : obs.m[k] = t.v[k].m /\ obs.e[k] = t.v[k].e
XSIn(j) == Strip(j.m, j.e)
XSMatch(obs, x) == obs.ok /\ obs.m = x.m /\ obs.e = x.e
XSGt(x, thr, observed) == DSign(DAdd(x, DNeg(thr))) > 0
XPIn(j) == [n |-> j.n]
XCanon(n, t) == t
\* approx::AbsDiffEq / RelativeEq lifted to arrays: equal dims and every pair of elements close
DAbs(a) == IF a.m < 0 THEN DNeg(a) ELSE a
DLe(a, b) == DSign(DAdd(b, DNeg(a))) >= 0
DMax(a, b) == IF DLe(a, b) THEN b ELSE a
ScalarClose(kind, x, y, eps, rel) ==
  LET diff == DAbs(DAdd(x, DNeg(y))) IN
  IF kind = "abs_diff_eq" THEN DLe(diff, eps)
  ELSE x = y \/ DLe(diff, eps) \/ DLe(diff, DMul(DMax(DAbs(x), DAbs(y)), rel))
XApproxEq(kind, a, b, eps, rel) ==
  IF a.d # b.d THEN "F"
  ELSE IF \E k \in 1..Len(a.v) : IsHuge(DAdd(a.v[k], DNeg(b.v[k]))) \/ IsHuge(DMul(DMax(DAbs(a.v[k]), DAbs(b.v[k])), rel)) THEN "unspec"
  ELSE IF \A k \in 1..Len(a.v) : ScalarClose(kind, a.v[k], b.v[k], eps, rel) THEN "T" ELSE "F"
XTainted(t) == \E k \in 1..Len(t.v) : IsHuge(t.v[k])
XRec == ndJsonDeserialize(IOEnv.TRACE)

VARIABLES l, S, dig, skip, lastcmp, stats

IdAdj(n, t) == t
INSTANCE TraceSpec WITH SAdd <- DAdd, SMul <- DMul, SNeg <- DNeg, SDiv <- DDiv, SFn <- DFn,
                        SPow <- DPow, SDPow <- DDPow, SZero <- DZero, SOne <- DOne, AdjCanon <- IdAdj,
                        TIn <- XTIn, TMatch <- XTMatch, SIn <- XSIn, SMatch <- XSMatch, SGt <- XSGt,
                        PIn <- XPIn, Canon <- XCanon, ApproxEq <- XApproxEq, Tainted <- XTainted, Exact <- TRUE, Rec <- XRec
=============================================================================
