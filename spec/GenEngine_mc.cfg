SPECIFICATION Spec
CONSTANTS
  MaxLen = 4
  MaxOps = 2
  MaxPasses = 1
  Ops = {"add", "mul"}
  Acts = {"op", "backward", "flag", "clone", "drop", "clear"}
  LeafDims <- LD_scalar
INVARIANTS KidsIffTracked GradDims
PROPERTIES HandleStutter ImmutableNodes
CHECK_DEADLOCK FALSE
