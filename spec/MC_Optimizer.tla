---------------------------- MODULE MC_Optimizer ----------------------------
(***************************************************************************)
(* C13.  The implementation-shaped gradient-descent update (gd.rs: values  *)
(* and gradients of the parameters that hold a gradient are concatenated   *)
(* into two flat buffers, one fused multiply-add runs over them, and the   *)
(* result is drained back, parameter by parameter, skipping frozen ones)   *)
(* is checked against the abstract AutodiffAbs!Update (each parameter with *)
(* a gradient becomes old - lr * g, element by element, tracked, slot      *)
(* emptied; the others untouched) for EVERY parameter list of 1..MaxParams *)
(* entries over Shapes, every subset holding a gradient and every learning *)
(* rate in Rates, twice in a row.  One initial state per case.             *)
(***************************************************************************)
EXTENDS Dyadic, Sequences, FiniteSets, TLC

CONSTANTS MaxParams
Shapes == {<<1>>, <<2>>, <<3>>, <<1, 2>>, <<2, 2>>, <<2, 1, 2>>}
Rates == {Dy(0, 0), Dy(1, 0), Dy(1, 1), Dy(-2, 0), Dy(3, 2)}

IdAdj(n, t) == t
INSTANCE AutodiffAbs WITH SAdd <- DAdd, SMul <- DMul, SNeg <- DNeg, SDiv <- DDiv, SFn <- DFn,
                          SPow <- DPow, SDPow <- DDPow, SZero <- DZero, SOne <- DOne, AdjCanon <- IdAdj

VARIABLE c      \* [ds: Seq(dims), has: Seq(BOOLEAN), has2: Seq(BOOLEAN), lr]
Cases == UNION { { [ds |-> ds, has |-> has, has2 |-> has2, lr |-> lr] :
                     ds \in [1..n -> Shapes], has \in [1..n -> BOOLEAN], has2 \in [1..n -> BOOLEAN], lr \in Rates }
                 : n \in 1..MaxParams }
Init == c \in Cases
Spec == Init /\ [][UNCHANGED c]_c

ParamT(k, d) == T(d, [i \in 1..Prod(d) |-> DInt(10 * k + i)])
GradT(k, d, round) == T(d, [i \in 1..Prod(d) |-> Dy(((2 * i + 3 * k + round) % 7) - 3, (i % 2))])

\* abstract state: parameters on handles 1..n (tracked or not, alternating), gradients deposited
RECURSIVE Mk(_,_,_)
Mk(S0, k, ds) == IF k > Len(ds) THEN S0 ELSE Mk(NewLeaf(S0, k, ParamT(k, ds[k]), (k % 2) = 0, k), k + 1, ds)
RECURSIVE Deposit(_,_,_,_,_)
Deposit(S0, k, ds, has, round) ==
  IF k > Len(ds) THEN S0
  ELSE Deposit(IF has[k] THEN SetGrad(S0, k, GradT(k, ds[k], round)) ELSE S0, k + 1, ds, has, round)
Handles(n) == [k \in 1..n |-> k]

\* ---- the implementation-shaped update on the same state
RECURSIVE CatVals(_,_,_)      \* concatenated values / gradients of the parameters holding a gradient
CatVals(S0, hs, what) ==
  IF hs = <<>> THEN <<>>
  ELSE LET n == S0.hd[Head(hs)].n IN
       (IF S0.grad[n].none THEN <<>> ELSE (IF what = "v" THEN S0.nodes[n].t.v ELSE S0.grad[n].x.v))
       \o CatVals(S0, Tail(hs), what)
RECURSIVE Drain(_,_,_,_,_)    \* give each non-frozen parameter the next Len values of the flat buffer
Drain(S0, Sorig, hs, buf, uid) ==
  IF hs = <<>> THEN S0
  ELSE LET h == Head(hs)  n == Sorig.hd[h].n IN
       IF Sorig.grad[n].none THEN Drain(S0, Sorig, Tail(hs), buf, uid)
       ELSE LET len == Len(Sorig.nodes[n].t.v)
                new == T(Sorig.nodes[n].t.d, SubSeq(buf, 1, len))
                m == Len(S0.nodes) + 1
                S1 == AddNode([S0 EXCEPT !.grad[n] = None], MkNode(new, "leaf", <<>>, <<>>, m, uid, "leaf"))
                S2 == [S1 EXCEPT !.hd = FnPut(S1.hd, h, [n |-> m, trk |-> TRUE, keep |-> TRUE])]
            IN Drain(S2, Sorig, Tail(hs), SubSeq(buf, len + 1, Len(buf)), uid)
ImplUpdate(S0, hs, lr, uid) ==
  LET vals == CatVals(S0, hs, "v")  grads == CatVals(S0, hs, "g")
      buf == [i \in 1..Len(vals) |-> DAdd(vals[i], DNeg(DMul(lr, grads[i])))]
  IN Drain(S0, S0, hs, buf, uid)

\* projection compared: per handle the node's tensor, flags, and the gradient slot
Proj(S0, n) == [h \in 1..n |-> [t |-> HandleT(S0, h), trk |-> S0.hd[h].trk, g |-> S0.grad[S0.hd[h].n]]]

UpdateRefines ==
  LET n == Len(c.ds)
      S0 == Deposit(Mk(EmptyState, 1, c.ds), 1, c.ds, c.has, 0)
      A1 == Update(S0, Handles(n), c.lr, 100)
      I1 == ImplUpdate(S0, Handles(n), c.lr, 100)
      A1b == Deposit(A1, 1, c.ds, c.has2, 1)
      I1b == Deposit(I1, 1, c.ds, c.has2, 1)
      A2 == Update(A1b, Handles(n), c.lr, 101)
      I2 == ImplUpdate(I1b, Handles(n), c.lr, 101)
  IN /\ Proj(A1, n) = Proj(I1, n)
     /\ Proj(A2, n) = Proj(I2, n)
\* the statement of C13 on the abstract update itself
UpdateExact ==
  LET n == Len(c.ds)
      S0 == Deposit(Mk(EmptyState, 1, c.ds), 1, c.ds, c.has, 0)
      A1 == Update(S0, Handles(n), c.lr, 100)
  IN \A k \in 1..n :
       IF c.has[k]
       THEN /\ HandleT(A1, k).d = c.ds[k]
            /\ \A i \in 1..Prod(c.ds[k]) :
                 HandleT(A1, k).v[i] = DAdd(ParamT(k, c.ds[k]).v[i], DNeg(DMul(c.lr, GradT(k, c.ds[k], 0).v[i])))
            /\ A1.hd[k].trk /\ A1.grad[A1.hd[k].n] = None /\ A1.grad[S0.hd[k].n] = None
            /\ NodeT(A1, S0.hd[k].n) = ParamT(k, c.ds[k])               \* the old array is intact (C08)
       ELSE A1.hd[k] = S0.hd[k] /\ A1.grad[S0.hd[k].n] = None
=============================================================================
