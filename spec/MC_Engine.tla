----------------------------- MODULE MC_Engine -----------------------------
(* Bounded model checking of the implementation-shaped pass against the abstract specification. *)
EXTENDS ScalarInt, Sequences, TLC

CONSTANTS MaxOps, MaxPasses, Ops, Guard, LeafKind, Variants
VARIABLES S, cnt, delta, stack, passes, evals, pre, built

TT(d, v) == [d |-> d, v |-> v]
\* distinct primes make path multiplicities visible; LeafKind "bc" adds a broadcast pair [2] / [1]
MCLeafTs == IF LeafKind = "scalar" THEN <<TT(<<1>>, <<2>>), TT(<<1>>, <<3>>)>>
            ELSE <<TT(<<2>>, <<2, 5>>), TT(<<1>>, <<3>>)>>
RECURSIVE LProd(_)
LProd(d) == IF d = <<>> THEN 1 ELSE Head(d) * LProd(Tail(d))
MCSeeds(d) == {TT(d, [k \in 1..LProd(d) |-> 5 + 2 * k])}

IdAdj(n, t) == t
INSTANCE AutodiffImpl WITH SAdd <- IAdd, SMul <- IMul, SNeg <- INeg, SDiv <- IDiv, SFn <- IFn,
                           SPow <- IPow, SDPow <- IDPow, SZero <- 0, SOne <- 1, AdjCanon <- IdAdj,
                           LeafTs <- MCLeafTs, Seeds <- MCSeeds
\* ---- refinement: the implementation-shaped pass implements the atomic abstract specification
absS == IF stack = <<>> THEN S ELSE pre.S
Abs == INSTANCE AutodiffAbsSpec WITH SAdd <- IAdd, SMul <- IMul, SNeg <- INeg, SDiv <- IDiv, SFn <- IFn,
                                    SPow <- IPow, SDPow <- IDPow, SZero <- 0, SOne <- 1, AdjCanon <- IdAdj,
                                    Seeds <- MCSeeds, aS <- absS
\* (the cheap stuttering test first: most steps of a pass do not change the abstract state)
AbsRefined == [][absS' = absS \/ Abs!ANext]_vars

\* the next-state relation restated at the root so that TLC reports one coverage count per action
MCNext == Build \/ Freeze \/ Begin \/ Eval \/ Deliver \/ Store \/ Clear
MCSpec == Init /\ [][MCNext]_vars
\* liveness: under weak fairness of the pass actions every started pass finishes (no state constraint)
MCFair == MCSpec /\ WF_vars(Eval \/ Deliver \/ Store)
PassesFinish == []<>(stack = <<>>)
=============================================================================
