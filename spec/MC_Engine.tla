----------------------------- MODULE MC_Engine -----------------------------
(* Bounded model checking of the implementation-shaped pass against the abstract specification. *)
EXTENDS ScalarInt, Sequences, TLC

CONSTANTS MaxOps, MaxPasses, Ops, Guard, LeafKind, Variants
VARIABLES S, cnt, delta, stack, passes, evals, pre, built

TT(d, v) == [d |-> d, v |-> v]
\* distinct primes make path multiplicities visible; LeafKind "bc" adds a broadcast pair [2] / [1]
MCLeafTs == IF LeafKind = "scalar" THEN <<TT(<<1>>, <<2>>), TT(<<1>>, <<3>>)>>
            ELSE <<TT(<<2>>, <<2, 5>>), TT(<<1>>, <<3>>)>>
MCSeeds(d) == IF d = <<1>> THEN {TT(<<1>>, <<7>>)} ELSE {TT(d, [k \in 1..Len(d) |-> 7])}

INSTANCE AutodiffImpl WITH SAdd <- IAdd, SMul <- IMul, SNeg <- INeg, SDiv <- IDiv, SFn <- IFn,
                           SPow <- IPow, SDPow <- IDPow, SZero <- 0, SOne <- 1,
                           LeafTs <- MCLeafTs, Seeds <- MCSeeds
=============================================================================
