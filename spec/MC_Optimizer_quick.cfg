SPECIFICATION Spec
CONSTANTS MaxParams = 2
INVARIANTS UpdateRefines UpdateExact
CHECK_DEADLOCK FALSE
