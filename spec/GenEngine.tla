----------------------------- MODULE GenEngine -----------------------------
(***************************************************************************)
(* Case generator: every behaviour of the abstract specification (within   *)
(* the bounds of the configuration) is one PROGRAM for the executor.  The  *)
(* state is the program written so far plus the abstract state it leads    *)
(* to, so TLC's exhaustive search enumerates each program once, and        *)
(* `tlc -simulate` draws random long ones.  Steps are enabled by the       *)
(* specification: e.g. Vec::from(h) is generated exactly where the spec    *)
(* says h MUST be the sole owner of its buffer (C18), passes start from    *)
(* any live handle, flags change between passes (C09, C10).                *)
(* A program of full length is printed as <<"PROG", json>>.                      *)
(***************************************************************************)
EXTENDS Dyadic, Sequences, FiniteSets, TLC, Json

CONSTANTS MaxLen,      \* steps after the leaves
          MaxOps,      \* operation steps
          MaxPasses,
          Ops,         \* operations used
          Acts,        \* subset of {"op","clone","drop","flag","backward","clear","grad","own"}
          LeafDims     \* sequence of leaf dims, e.g. <<<<1>>, <<1>>>>

\* leaf-shape choices for the configurations (cfg files cannot write tuples)
LD_scalar == << <<1>>, <<1>> >>
LD_bcast == << <<2>>, <<1>>, <<2, 2>> >>
LD_three == << <<1>>, <<1>>, <<1>> >>

VARIABLES S, prog, nops, npass, nh, done
vars == <<S, prog, nops, npass, nh, done>>

IdAdj(n, t) == t
INSTANCE AutodiffAbs WITH SAdd <- DAdd, SMul <- DMul, SNeg <- DNeg, SDiv <- DDiv, SFn <- DFn,
                          SPow <- DPow, SDPow <- DDPow, SZero <- DZero, SOne <- DOne, AdjCanon <- IdAdj

\* values stay inside the exact domain: a program whose specified values overflow is not generated
TaintedT(t) == \E k \in 1..Len(t.v) : IsHuge(t.v[k])
Clean(S0) == /\ \A n \in 1..Len(S0.nodes) : ~TaintedT(S0.nodes[n].t)
             /\ \A n \in 1..Len(S0.grad) : IsSome(S0.grad[n]) => ~TaintedT(S0.grad[n].x)

Primes == <<2, 3, 5, 7, 11, 13, 17, 19, 23, 29, 31, 37>>
LeafVals(k, d) == [i \in 1..Prod(d) |-> Primes[(((k - 1) * 3 + i - 1) % 12) + 1]]
SeedVals(d) == [i \in 1..Prod(d) |-> Primes[((i + 4) % 12) + 1]]
Zs(d) == [i \in 1..Prod(d) |-> 0]

LeafStep(k, trk) == [op |-> "leaf", res |-> k, d |-> LeafDims[k], m |-> LeafVals(k, LeafDims[k]),
                     e |-> Zs(LeafDims[k]), trk |-> trk]

RECURSIVE MkLeaves(_,_,_)
MkLeaves(S0, k, trks) ==
  IF k > Len(LeafDims) THEN S0
  ELSE MkLeaves(NewLeaf(S0, k, T(LeafDims[k], [i \in 1..Prod(LeafDims[k]) |-> DInt(LeafVals(k, LeafDims[k])[i])]), trks[k], k), k + 1, trks)

Init == \E trks \in [1..Len(LeafDims) -> BOOLEAN] :
          /\ S = MkLeaves(EmptyState, 1, trks)
          /\ prog = <<[op |-> "reset"]>> \o [k \in 1..Len(LeafDims) |-> LeafStep(k, trks[k])]
          /\ nops = 0 /\ npass = 0 /\ nh = Len(LeafDims) + 1 /\ done = FALSE

Room == Len(prog) < 1 + Len(LeafDims) + MaxLen
Uid == Len(prog)            \* the executor numbers steps from 0; this step gets index Len(prog)

ArityOf(op) == IF op \in {"neg", "csq", "relu"} THEN 1 ELSE IF op = "cfma" THEN 3 ELSE 2
Tuples(k) == IF k = 1 THEN { <<a>> : a \in Live(S) }
             ELSE IF k = 2 THEN Live(S) \X Live(S) ELSE Live(S) \X Live(S) \X Live(S)
IsCustom(op) == op \in {"cadd", "cmul", "csq", "cfma"}

OpStep ==
  /\ Room /\ "op" \in Acts /\ nops < MaxOps
  /\ \E op \in Ops : \E hs \in Tuples(ArityOf(op)) :
     \* a user operation may come with a derivative although none of its operands is tracked
     \E bw \in (IF IsCustom(op) THEN {AnyTracked(S, hs), TRUE} ELSE {FALSE}) :
       LET par == IF IsCustom(op) THEN [bw |-> bw] ELSE <<>> IN
       /\ ApplyStatus(S, op, par, hs) = "ok"
       /\ S' = Apply(S, op, par, hs, nh, Uid)
       /\ Clean(S')
       /\ prog' = Append(prog, IF IsCustom(op) THEN [op |-> op, args |-> hs, res |-> nh, bw |-> bw]
                               ELSE [op |-> op, args |-> hs, res |-> nh])
  /\ nops' = nops + 1 /\ nh' = nh + 1 /\ UNCHANGED <<npass, done>>

CloneStep ==
  /\ Room /\ "clone" \in Acts
  /\ \E h \in Live(S) : S' = Clone(S, h, nh) /\ prog' = Append(prog, [op |-> "clone", args |-> <<h>>, res |-> nh])
  /\ nh' = nh + 1 /\ UNCHANGED <<nops, npass, done>>

DropStep ==
  /\ Room /\ "drop" \in Acts
  /\ \E h \in Live(S) : S' = Drop(S, h) /\ prog' = Append(prog, [op |-> "drop", args |-> <<h>>])
  /\ UNCHANGED <<nops, npass, nh, done>>

FlagStep ==
  /\ Room /\ "flag" \in Acts
  /\ \E h \in Live(S) : \E k \in {"tracked", "untracked", "start", "stop"} :
       /\ S.nodes[S.hd[h].n].kind # "gradview"      \* fetched gradient arrays stay plain
       /\ S' = IF k \in {"tracked", "untracked"} THEN SetTracked(S, h, k = "tracked") ELSE SetTrk(S, h, k = "start")
       /\ S' # S                                    \* only flag changes that change something
       /\ prog' = Append(prog, [op |-> k, args |-> <<h>>])
  /\ UNCHANGED <<nops, npass, nh, done>>

BackwardStep ==
  /\ Room /\ "backward" \in Acts /\ npass < MaxPasses
  /\ \E h \in Live(S) : \E seeded \in BOOLEAN :
       /\ S.nodes[S.hd[h].n].kind # "gradview"
       /\ LET d == HandleT(S, h).d
           seedOpt == IF seeded THEN Some(T(d, [i \in 1..Prod(d) |-> DInt(SeedVals(d)[i])])) ELSE None
          IN
          \* nondeterministic may-store nodes: generate only passes whose effect is determined
          /\ \A n \in 1..S.hd[h].n : ~MayStore(S, h, RefAdj(S, S.hd[h].n, SeedOf(S, h, seedOpt)), n)
               \/ "maystore" \in Acts
          /\ S' = Backward(S, h, seedOpt, {})
          /\ Clean(S')
          /\ prog' = Append(prog, IF seeded THEN [op |-> "backward", args |-> <<h>>,
                                                  seed |-> [d |-> d, m |-> SeedVals(d), e |-> Zs(d)]]
                                  ELSE [op |-> "backward", args |-> <<h>>])
  /\ npass' = npass + 1 /\ UNCHANGED <<nops, nh, done>>

ClearStep ==
  /\ Room /\ "clear" \in Acts
  /\ \E h \in Live(S) : \E how \in {"replace", "mut"} :
       /\ IsSome(S.grad[S.hd[h].n]) /\ S.nodes[S.hd[h].n].kind # "gradview"
       /\ S' = ClearGrad(S, h) /\ prog' = Append(prog, [op |-> "clear", args |-> <<h>>, how |-> how])
  /\ UNCHANGED <<nops, npass, nh, done>>

GradStep ==
  /\ Room /\ "grad" \in Acts
  /\ \E h \in Live(S) :
       /\ IsSome(S.grad[S.hd[h].n]) /\ S.nodes[S.hd[h].n].kind # "gradview"
       /\ S' = FetchGrad(S, h, nh, Uid) /\ prog' = Append(prog, [op |-> "grad", args |-> <<h>>, res |-> nh])
  /\ nh' = nh + 1 /\ UNCHANGED <<nops, npass, done>>

\* Vec::from exactly where the specification says the handle must own its buffer
OwnStep ==
  /\ Room /\ "own" \in Acts
  /\ \E h \in Live(S) : MustOwn(S, h) /\ S' = IntoVec(S, h) /\ prog' = Append(prog, [op |-> "into_vec", args |-> <<h>>])
  /\ UNCHANGED <<nops, npass, nh, done>>

\* GradientDescent::update on one or two live handles (any arrays: leaves, clones of them, results): those that
\* hold a gradient are replaced by fresh tracked arrays, the slot is emptied, older handles keep what they had
NUpd == Cardinality({ i \in 1..Len(prog) : prog[i].op = "update" })
UpdateStep ==
  /\ Room /\ "update" \in Acts /\ NUpd < 2
  /\ \E hs \in { <<a>> : a \in Live(S) } \cup { p \in Live(S) \X Live(S) : p[1] # p[2] } :
     \E lr \in { <<1, 1>>, <<-1, 0>>, <<3, 2>> } :                 \* 1/2, -1, 3/4
       /\ \A i \in 1..Len(hs) : S.nodes[S.hd[hs[i]].n].kind # "gradview"
       /\ S' = Update(S, hs, Dy(lr[1], lr[2]), Uid)
       /\ Clean(S')
       /\ prog' = Append(prog, [op |-> "update", args |-> hs, lr |-> [m |-> lr[1], e |-> lr[2]]])
  /\ UNCHANGED <<nops, npass, nh, done>>

Next == OpStep \/ CloneStep \/ DropStep \/ FlagStep \/ BackwardStep \/ ClearStep \/ GradStep \/ OwnStep \/ UpdateStep
Spec == Init /\ [][Next]_vars

\* only programs that end in an observation of a pass or of ownership are worth running
Interesting == \E i \in 1..Len(prog) : prog[i].op \in {"backward", "into_vec"}
\* a program is emitted when it reached the length bound (its prefixes are validated with it)
Emit == (~Room /\ Interesting) => PrintT(<<"PROG", ToJson(prog)>>)
(***************************************************************************)
(* Properties of the abstract specification itself, checked when this       *)
(* module is model-checked exhaustively (MC configurations).                *)
(***************************************************************************)
LastOp(p) == p[Len(p)].op
\* C12: clones, drops and flag changes never change a node or a gradient slot
HandleStutter ==
  [][LastOp(prog') \in {"clone", "drop", "tracked", "untracked", "start", "stop"}
       => (S'.nodes = S.nodes /\ S'.grad = S.grad)]_vars
\* C08: node values never change; C09: operands are recorded iff some operand handle was tracked
ImmutableNodes == [][\A n \in 1..Len(S.nodes) : S'.nodes[n] = S.nodes[n]]_vars
KidsIffTracked == \A n \in 1..Len(S.nodes) :
                     S.nodes[n].kids # <<>> <=> \E i \in 1..Len(S.nodes[n].kids) : S.nodes[n].kids[i].trk
\* C03: a stored gradient has its array's dimensions
GradDims == \A n \in 1..Len(S.grad) : IsSome(S.grad[n]) => S.grad[n].x.d = S.nodes[n].t.d
\* the linear forms of the store predicates agree with their definitions
StoreFormsAgree ==
  \A h \in Live(S) :
     LET n == S.hd[h].n
         adj == RefAdj(S, n, Ones(HandleT(S, h).d))
         weak == WeakKids(S, n, adj)
     IN \A m \in 1..n : MustStore(S, h, adj, m) = MustStoreW(S, h, adj, weak, m)
\* the two forms of the reference adjoint (definition: gather; used by the validators: scatter) agree
AdjFormsAgree ==
  \A h \in Live(S) :
     LET n == S.hd[h].n  d == HandleT(S, h).d
         s1 == T(d, [i \in 1..Prod(d) |-> DInt(SeedVals(d)[i])])
     IN RefAdj(S, n, s1) = RefAdjDef(S, n, s1)
\* C17: the reference adjoint is linear in the seed (alpha = 2, beta = -3), for every live root
ScaleT(t, c) == T(t.d, [k \in 1..Len(t.v) |-> DMul(DInt(c), t.v[k])])
Lin(o1, o2) == IF o1.none THEN None ELSE Some(TAdd(ScaleT(o1.x, 2), ScaleT(o2.x, -3)))
SeedLinear ==
  \A h \in Live(S) :
     LET n == S.hd[h].n  d == HandleT(S, h).d
         s1 == T(d, [i \in 1..Prod(d) |-> DInt(SeedVals(d)[i])])
         s2 == T(d, [i \in 1..Prod(d) |-> DInt(LeafVals(2, d)[i] - 6)])
         a1 == RefAdj(S, n, s1)  a2 == RefAdj(S, n, s2)
         a3 == RefAdj(S, n, TAdd(ScaleT(s1, 2), ScaleT(s2, -3)))
         inDomain(a) == \A m \in 1..n : a[m].none \/ ~TaintedT(a[m].x)
     IN (inDomain(a1) /\ inDomain(a2) /\ inDomain(a3) /\ \A m \in 1..n : a1[m].none \/ ~TaintedT(Lin(a1[m], a2[m]).x))
          => \A m \in 1..n : a3[m] = Lin(a1[m], a2[m])
=============================================================================
